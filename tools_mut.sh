#!/bin/bash
# usage: tools_mut.sh <name> <ID> <patchfile|-e 'sed-expr' file> ; runs quick check against a mutated scratch copy of /repo
# Creates /tmp/mut-<name> as a git worktree of /repo HEAD (+ uncommitted changes are NOT included), applies the mutation, runs, removes.
set -u
name=$1; id=$2; shift 2
d=/tmp/mut-$name
git -C /repo worktree remove --force $d >/dev/null 2>&1
git -C /repo worktree add --detach $d HEAD >/dev/null 2>&1 || { echo "worktree failed"; exit 3; }
if [ "$1" = "-e" ]; then
  sed -i -e "$2" $d/$3 || exit 3
  (cd $d && git diff --stat | tail -1)
  if [ -z "$(cd $d && git diff)" ]; then echo "MUTATION DID NOT CHANGE ANYTHING"; git -C /repo worktree remove --force $d; exit 3; fi
else
  (cd $d && git apply $1) || { echo "patch failed"; git -C /repo worktree remove --force $d; exit 3; }
fi
(cd $d && GOFLAGS=-mod=mod go build ./... ) || { echo "MUTANT DOES NOT BUILD"; git -C /repo worktree remove --force $d; exit 3; }
VERIF_REPO=$d /verif/check $id ${TIER:-quick} | cut -c1-600 | head -${LINES_MAX:-12}
rc=${PIPESTATUS[0]}
git -C /repo worktree remove --force $d
rm -f /verif/.build/*.$(echo -n $d | sha1sum | cut -c1-6)*.test /verif/.build/go.$(echo -n $d | sha1sum | cut -c1-10).*
echo "mutant $name -> exit $rc"
