// mutgen enumerates and applies small syntactic mutations to one Go source file.
//
//	mutgen -list file.go            prints one line per mutation site: index<TAB>line<TAB>func<TAB>description
//	mutgen -apply N file.go > out   prints the file with mutation N applied
//
// Operators: comparison/logic/arithmetic operator replacement, condition negation, statement deletion
// (calls, assignments, inc/dec, defer, send), boolean literal flip, integer literal +1, break<->continue removal
// is not attempted. Statements that only log or count metrics are skipped (their removal is not observable by a
// property). Standard library only.
package main

import (
	"bytes"
	"flag"
	"fmt"
	"go/ast"
	"go/parser"
	"go/printer"
	"go/token"
	"os"
	"regexp"
	"strconv"
)

type site struct {
	line  int
	fn    string
	desc  string
	apply func()
}

var skipStmt = regexp.MustCompile(`(?i)logger|\.L\(\)|\.Debug\(|\.Warn\(|\.Info\(|\.Error\(|zap\.|Total|Counter|Gauge|\.Observe\(|\.Inc\(\)|metrics|mlog\.|verifhook\.`)

func src(fset *token.FileSet, n ast.Node) string {
	var b bytes.Buffer
	printer.Fprint(&b, fset, n)
	s := b.String()
	if len(s) > 70 {
		s = s[:70] + "..."
	}
	return regexp.MustCompile(`\s+`).ReplaceAllString(s, " ")
}

func main() {
	list := flag.Bool("list", false, "list mutation sites")
	applyN := flag.Int("apply", -1, "apply mutation N")
	flag.Parse()
	file := flag.Arg(0)
	fset := token.NewFileSet()
	f, err := parser.ParseFile(fset, file, nil, parser.ParseComments)
	if err != nil {
		fmt.Fprintln(os.Stderr, err)
		os.Exit(2)
	}
	var sites []site
	add := func(pos token.Pos, fn, desc string, apply func()) {
		sites = append(sites, site{line: fset.Position(pos).Line, fn: fn, desc: desc, apply: apply})
	}
	binRepl := map[token.Token][]token.Token{
		token.EQL: {token.NEQ}, token.NEQ: {token.EQL},
		token.LSS: {token.LEQ, token.GEQ}, token.LEQ: {token.LSS, token.GTR},
		token.GTR: {token.GEQ, token.LEQ}, token.GEQ: {token.GTR, token.LSS},
		token.LAND: {token.LOR}, token.LOR: {token.LAND},
		token.ADD: {token.SUB}, token.SUB: {token.ADD},
	}
	for _, d := range f.Decls {
		fd, ok := d.(*ast.FuncDecl)
		if !ok || fd.Body == nil {
			continue
		}
		fn := fd.Name.Name
		if fd.Recv != nil && len(fd.Recv.List) == 1 {
			fn = src(fset, fd.Recv.List[0].Type) + "." + fn
		}
		if fn == "init" || fd.Name.Name == "String" {
			continue
		}
		// statement deletion needs the enclosing list
		var walkList func(list []ast.Stmt)
		delStmt := func(list []ast.Stmt, i int) {
			s := list[i]
			text := src(fset, s)
			if skipStmt.MatchString(text) {
				return
			}
			switch st := s.(type) {
			case *ast.ExprStmt, *ast.IncDecStmt, *ast.DeferStmt, *ast.SendStmt, *ast.GoStmt:
				if _, isGo := s.(*ast.GoStmt); isGo {
					return
				}
				add(s.Pos(), fn, "delete: "+text, func() { list[i] = &ast.EmptyStmt{Semicolon: s.Pos()} })
			case *ast.AssignStmt:
				if st.Tok != token.DEFINE {
					add(s.Pos(), fn, "delete: "+text, func() { list[i] = &ast.EmptyStmt{Semicolon: s.Pos()} })
				}
			case *ast.BranchStmt:
				if st.Label == nil && (st.Tok == token.BREAK || st.Tok == token.CONTINUE) {
					add(s.Pos(), fn, "delete: "+text, func() { list[i] = &ast.EmptyStmt{Semicolon: s.Pos()} })
				}
			}
		}
		walkList = func(list []ast.Stmt) {
			for i := range list {
				delStmt(list, i)
			}
		}
		ast.Inspect(fd.Body, func(n ast.Node) bool {
			switch x := n.(type) {
			case *ast.BlockStmt:
				walkList(x.List)
			case *ast.CaseClause:
				walkList(x.Body)
			case *ast.CommClause:
				walkList(x.Body)
			case *ast.CallExpr:
				// do not mutate inside logging / metric calls
				if skipStmt.MatchString(src(fset, x.Fun)) {
					return false
				}
			case *ast.BinaryExpr:
				if alts, ok := binRepl[x.Op]; ok {
					orig := x.Op
					text := src(fset, x)
					for _, a := range alts {
						a := a
						add(x.OpPos, fn, fmt.Sprintf("%s -> %s in: %s", orig, a, text), func() { x.Op = a })
					}
				}
			case *ast.IfStmt:
				if be, ok := x.Cond.(*ast.BinaryExpr); ok && (be.Op == token.EQL || be.Op == token.NEQ) {
					break // covered by the operator replacement
				}
				if ue, ok := x.Cond.(*ast.UnaryExpr); ok && ue.Op == token.NOT {
					break // covered by "drop !"
				}
				text := src(fset, x.Cond)
				add(x.Cond.Pos(), fn, "negate if: "+text, func() {
					x.Cond = &ast.UnaryExpr{Op: token.NOT, X: &ast.ParenExpr{X: x.Cond}}
				})
			case *ast.ForStmt:
				if x.Cond != nil {
					text := src(fset, x.Cond)
					add(x.Cond.Pos(), fn, "for cond false: "+text, func() { x.Cond = ast.NewIdent("false") })
				}
			case *ast.Ident:
				if x.Name == "true" || x.Name == "false" {
					other := map[string]string{"true": "false", "false": "true"}[x.Name]
					add(x.Pos(), fn, x.Name+" -> "+other, func() { x.Name = other })
				}
			case *ast.BasicLit:
				if x.Kind == token.INT {
					if v, err := strconv.ParseInt(x.Value, 0, 64); err == nil && v < 1<<31 {
						old := x.Value
						add(x.Pos(), fn, fmt.Sprintf("int %s -> %d", old, v+1), func() { x.Value = strconv.FormatInt(v+1, 10) })
					}
				}
			case *ast.UnaryExpr:
				if x.Op == token.NOT {
					text := src(fset, x)
					add(x.Pos(), fn, "drop !: "+text, func() { x.X = &ast.UnaryExpr{Op: token.NOT, X: &ast.ParenExpr{X: x.X}} })
				}
			}
			return true
		})
	}
	if *list {
		for i, s := range sites {
			fmt.Printf("%d\t%d\t%s\t%s\n", i, s.line, s.fn, s.desc)
		}
		return
	}
	if *applyN < 0 || *applyN >= len(sites) {
		fmt.Fprintln(os.Stderr, "no such mutation")
		os.Exit(2)
	}
	sites[*applyN].apply()
	if err := printer.Fprint(os.Stdout, fset, f); err != nil {
		fmt.Fprintln(os.Stderr, err)
		os.Exit(2)
	}
}
