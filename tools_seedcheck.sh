#!/bin/bash
# usage: tools_seedcheck.sh <patch.diff> <ID> [tier]  -- applies patch to /repo, runs the check, reverts.
set -u
[ -n "$(git -C /repo status --porcelain)" ] && { echo "/repo not clean"; exit 3; }
git -C /repo apply $1 || { echo "patch does not apply to /repo"; exit 3; }
cp /verif/evidence/$2.json /tmp/ev.$2.bak 2>/dev/null
mkdir -p /tmp/seedreplays; mv /verif/replays /tmp/seedreplays.keep.$$ 2>/dev/null; mkdir -p /verif/replays
/verif/check $2 ${3:-quick} | cut -c1-700 | head -${LINES_MAX:-8}; rc=${PIPESTATUS[0]}
git -C /repo checkout -- . ; git -C /repo clean -fdq
rm -rf /verif/replays; mv /tmp/seedreplays.keep.$$ /verif/replays 2>/dev/null || mkdir -p /verif/replays
cp /tmp/ev.$2.bak /verif/evidence/$2.json 2>/dev/null
echo "seedcheck $1 on $2 -> exit $rc"
