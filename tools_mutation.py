#!/usr/bin/env python3
"""Mutation run: applies every syntactic mutation mutgen finds in a group of source files to a scratch
worktree of /repo and runs the quick checks of the properties anchored in those files against it.

  tools_mutation.py <group>[,<group>...] [--workers N] [--limit K]

A mutant is 'killed' by the first check that exits 1, 'inconclusive' if a check ends with exit 2 / timeout
(a hang the check turned into 'inconclusive'), 'survived' if every listed check exits 0; survivors are then
run against the repository's own tests of the mutated package ('repo_tests': pass|fail).
Results: mutation/results.jsonl (one line per mutant; finished mutants are skipped on a re-run),
mutation/SUMMARY.md. Nothing is written to /repo, /verif/replays or /verif/evidence.
"""
import json, os, signal, subprocess, sys, threading, queue, time, hashlib, shutil

ROOT = os.path.dirname(os.path.abspath(__file__))
MUTGEN = os.path.join(ROOT, ".build", "mutgen")
OUTDIR = os.path.join(ROOT, "mutation")
RES = os.path.join(OUTDIR, "results.jsonl")
T = "pkg/upstream/transport/"
GROUPS = {
    "fallback": (["plugin/executable/sequence/fallback/fallback.go", "pkg/pool/timer.go"], ["C20"]),
    "forward": (["plugin/executable/forward/forward.go", "plugin/executable/forward/utils.go"], ["C14"]),
    "netlist": (["pkg/matcher/netlist/list.go", "pkg/matcher/netlist/load_helper.go"], ["C13"]),
    "domain": (["pkg/matcher/domain/matcher.go", "pkg/matcher/domain/utils.go", "pkg/matcher/domain/load_helper.go",
                "plugin/data_provider/domain_set/domain_set.go"], ["C12"]),
    "store": (["pkg/cache/cache.go", "pkg/concurrent_map/map.go", "pkg/concurrent_lru/concurrent_lru.go", "pkg/lru/lru.go"], ["C11"]),
    "sequence": (["plugin/executable/sequence/chain.go", "plugin/executable/sequence/built_in.go", "plugin/executable/sequence/sequence.go",
                  "plugin/executable/sequence/config.go"], ["C06", "C03"]),
    "cacheplugin": (["plugin/executable/cache/utils.go", "plugin/executable/cache/cache.go"], ["C04", "C05", "C10", "C19", "C15"]),
    "framing": (["pkg/dnsutils/net_io.go", "pkg/pool/msg_buf.go", "pkg/server/tcp.go", "pkg/server/udp.go", "pkg/server/http_handler.go",
                 "pkg/server/doq.go"], ["C16", "C03"]),
    "edns": (["pkg/query_context/context.go", "pkg/server_handler/entry_handler.go", "pkg/dnsutils/msg.go",
              "plugin/executable/ecs_handler/handler.go", "plugin/executable/forward_edns0opt/forwarder.go"], ["C15", "C03", "C05"]),
    "handlerplugins": (["plugin/executable/redirect/redirect.go", "pkg/hosts/hosts.go", "plugin/executable/dual_selector/dual_selector.go"], ["C03", "C12"]),
    "upstream": (["pkg/upstream/upstream.go", "pkg/upstream/utils.go", "pkg/upstream/bootstrap/bootstrap.go"], ["C18", "C17", "C07", "C01"]),
    "transport": ([T + "conn_traditional.go", T + "reuse.go", T + "pipeline.go", T + "conn_lazy_dial.go", T + "utils.go"],
                  ["C09", "C08", "C07", "C01", "C16", "C02"]),
    "doh_doq": ([T + "conn_quic.go", "pkg/upstream/doh/upstream.go"], ["C01"]),
}

ENV = dict(os.environ, GOFLAGS="-mod=mod", GOPROXY="off", GOSUMDB="off", GOTOOLCHAIN="local")
lock = threading.Lock()


def sh(cmd, cwd=None, timeout=None, env=None):
    p = subprocess.Popen(cmd, cwd=cwd, env=env or ENV, stdout=subprocess.PIPE, stderr=subprocess.STDOUT, text=True, start_new_session=True)
    try:
        out, _ = p.communicate(timeout=timeout)
        return p.returncode, out
    except subprocess.TimeoutExpired:
        try:
            os.killpg(p.pid, signal.SIGKILL)
        except Exception:
            pass
        out, _ = p.communicate()
        return -9, out or ""


def worker(wid, jobs, group_checks):
    wt = "/tmp/mutw-%d" % wid
    sh(["git", "-C", "/repo", "worktree", "remove", "--force", wt])
    rc, out = sh(["git", "-C", "/repo", "worktree", "add", "--detach", wt, "HEAD"])
    if rc != 0:
        print("worktree failed", out)
        return
    env = dict(ENV, VERIF_REPO=wt)
    try:
        while True:
            try:
                job = jobs.get_nowait()
            except queue.Empty:
                break
            group, f, idx, line, fn, desc = job
            rec = dict(group=group, file=f, idx=idx, line=line, func=fn, desc=desc)
            t0 = time.time()
            rc, out = sh([MUTGEN, "-apply", str(idx), os.path.join(wt, f)])  # the worktree file is pristine (HEAD) here
            if rc != 0:
                rec["status"] = "mutgen-error"
            else:
                open(os.path.join(wt, f), "w").write(out)
                rc, out = sh(["go", "build", "./" + os.path.dirname(f) + "/"], cwd=wt, timeout=600)
                if rc != 0:
                    rec["status"] = "stillborn"
                else:
                    rec["status"] = "survived"
                    rec["checks"] = {}
                    for cid in group_checks[group]:
                        rc, out = sh([os.path.join(ROOT, "check"), cid, "quick"], cwd=ROOT, timeout=300, env=env)
                        rec["checks"][cid] = rc
                        if rc == 1:
                            rec["status"] = "killed"
                            rec["by"] = cid
                            sig = [l.strip() for l in out.splitlines() if l.strip().startswith("signature=")]
                            rec["signature"] = sig[0].split()[0][len("signature="):] if sig else ""
                            break
                        if rc != 0:
                            # this check could not decide (hang turned into a timeout, worker death): try the next
                            # one; the mutant counts as inconclusive only if no check kills it
                            rec["status"] = "inconclusive"
                            rec.setdefault("by", cid)
                            continue
                    if rec["status"] == "survived":
                        rc, out = sh(["go", "test", "-vet=off", "-count=1", "./" + os.path.dirname(f) + "/"], cwd=wt, timeout=600)
                        rec["repo_tests"] = "pass" if rc == 0 else "fail"
                sh(["git", "-C", wt, "checkout", "--", f])
            rec["secs"] = round(time.time() - t0, 1)
            with lock:
                with open(RES, "a") as fh:
                    fh.write(json.dumps(rec) + "\n")
                print("%-12s %s:%d #%d %s  [%s%s] %.0fs" % (rec["status"], f, line, idx, desc[:60], rec.get("by", ""), " " + rec.get("repo_tests", "") if "repo_tests" in rec else "", rec["secs"]), flush=True)
    finally:
        sh(["git", "-C", "/repo", "worktree", "remove", "--force", wt])
        tag6 = hashlib.sha1(wt.encode()).hexdigest()[:6]
        tag10 = hashlib.sha1(wt.encode()).hexdigest()[:10]
        b = os.path.join(ROOT, ".build")
        for n in os.listdir(b):
            if (".%s." % tag6) in n or n.startswith("go.%s." % tag10) or n == "mutout-" + tag6:
                p = os.path.join(b, n)
                shutil.rmtree(p, ignore_errors=True) if os.path.isdir(p) else os.remove(p)


def summary():
    recs = {}
    for l in open(RES):
        r = json.loads(l)
        recs[(r["file"], r["idx"])] = r
    by_group = {}
    for r in recs.values():
        g = by_group.setdefault(r["group"], dict(total=0, stillborn=0, killed=0, inconclusive=0, survived=0, survivors=[], by={}))
        g["total"] += 1
        st = r["status"]
        if st in g:
            g[st] += 1
        if st == "killed":
            g["by"][r["by"]] = g["by"].get(r["by"], 0) + 1
        if st in ("survived", "inconclusive"):
            g["survivors"].append(r)
    with open(os.path.join(OUTDIR, "SUMMARY.md"), "w") as fh:
        fh.write("# Mutation run (tools_mutation.py)\n\n| group | checks | mutants | do not compile | killed | inconclusive (hang) | survived | killed by |\n|---|---|---|---|---|---|---|---|\n")
        for gname, g in sorted(by_group.items()):
            fh.write("| %s | %s | %d | %d | %d | %d | %d | %s |\n" % (gname, " ".join(GROUPS[gname][1]), g["total"], g["stillborn"], g["killed"], g["inconclusive"], g["survived"],
                                                               ", ".join("%s %d" % kv for kv in sorted(g["by"].items()))))
        fh.write("\n## Survivors and inconclusive mutants\n\n")
        for gname, g in sorted(by_group.items()):
            for r in sorted(g["survivors"], key=lambda r: (r["file"], r["line"])):
                fh.write("* %s `%s:%d` %s: %s (%s; repository tests of the package: %s)\n" % (gname, r["file"], r["line"], r["func"], r["desc"], r["status"], r.get("repo_tests", "-")))


def main():
    args = sys.argv[1:]
    if not args:
        print(__doc__)
        return 2
    if args[0] == "--summary":
        summary()
        return 0
    groups = args[0].split(",") if args[0] != "all" else list(GROUPS)
    workers = 4
    limit = None
    if "--workers" in args:
        workers = int(args[args.index("--workers") + 1])
    if "--limit" in args:
        limit = int(args[args.index("--limit") + 1])
    os.makedirs(OUTDIR, exist_ok=True)
    done = set()
    if os.path.exists(RES):
        for l in open(RES):
            r = json.loads(l)
            done.add((r["file"], r["idx"]))
    jobs = queue.Queue()
    n = 0
    for g in groups:
        files, checks = GROUPS[g]
        for f in files:
            rc, out = sh([MUTGEN, "-list", os.path.join("/repo", f)])
            for l in out.splitlines():
                idx, line, fn, desc = l.split("\t", 3)
                if (f, int(idx)) in done:
                    continue
                if limit is not None and n >= limit:
                    break
                jobs.put((g, f, int(idx), int(line), fn, desc))
                n += 1
    print("%d mutants queued, %d workers" % (n, workers), flush=True)
    gc = {g: GROUPS[g][1] for g in GROUPS}
    ths = [threading.Thread(target=worker, args=(i, jobs, gc)) for i in range(workers)]
    for t in ths:
        t.start()
    for t in ths:
        t.join()
    summary()
    return 0


if __name__ == "__main__":
    sys.exit(main())
