#!/bin/bash
# Runs every mutant of mutants.txt (or those whose name matches $1) through tools_mut.sh and prints a table.
cd "$(dirname "$0")"
pat=${1:-.}
grep -v '^#' mutants.txt | grep -E "$pat" | while IFS='|' read -r name id file expr; do
  [ -z "$name" ] && continue
  out=$(LINES_MAX=6 ./tools_mut.sh "$name" "$id" -e "$expr" "$file" 2>&1)
  rc=$(echo "$out" | sed -n 's/^mutant .* -> exit \([0-9]*\)$/\1/p' | tail -1)
  sig=$(echo "$out" | sed -n 's/^  signature=\([^ ]*\).*/\1/p' | head -1)
  note=""
  echo "$out" | grep -q "MUTANT DOES NOT BUILD" && note="does-not-build"
  echo "$out" | grep -q "MUTATION DID NOT CHANGE" && note="no-change"
  echo "$name|$id|${rc:-?}|$sig|$note"
done
