#!/bin/bash
# Applies every kept seeded change to /repo in turn, runs the quick check that is recorded as
# catching it, reverts, and prints a table. Usage: tools_seedall.sh [pattern]
# NOTE: /repo is patched while this runs: run nothing else that builds from /repo (checks, vp run) at the same time.
cd "$(dirname "$0")"
pat=${1:-.}
for d in seeded/*/; do
  sid=$(basename $d)
  echo "$sid" | grep -Eq "$pat" || continue
  prop=$(python3 -c "import json;m=json.load(open('$d/meta.json'));import re;det=m.get('detected_by_check','');r=re.search(r'by (C[0-9]+)',det);print(r.group(1) if r else m['property'])")
  out=$(timeout 1500 ./tools_seedcheck.sh /verif/$d/patch.diff $prop 2>&1)
  rc=$(echo "$out" | sed -n 's/^seedcheck .* -> exit \([0-9]*\)$/\1/p' | tail -1)
  sig=$(echo "$out" | sed -n 's/^  signature=\([^ ]*\).*/\1/p' | head -1)
  echo "$sid|$prop|${rc:-?}|$sig"
done
