#!/usr/bin/env python3
"""Regenerates MANIFEST.json from props.json (single source for per-property configuration)."""
import json, os
ROOT = os.path.dirname(os.path.abspath(__file__))
props = json.load(open(os.path.join(ROOT, "props.json")))
ids = [json.loads(l)["id"] for l in open(os.path.join(ROOT, "properties.jsonl"))]
hooks_commits = []
hp = os.path.join(ROOT, "hook_commits.txt")
if os.path.exists(hp):
    hooks_commits = [l.split()[0] for l in open(hp) if l.strip() and not l.startswith("#")]
checks, na = [], []
for pid in ids:
    c = props.get(pid)
    if not c or c.get("unclaimed"):
        na.append(dict(property_id=pid, reason=(c or {}).get("unclaimed") or "not claimed yet: its generated-input check is still under construction (design in DESIGN.md section 5)"))
        continue
    checks.append(dict(
        property_id=pid,
        quick_cmd="./check %s quick" % pid,
        thorough_cmd="./check %s thorough" % pid,
        evidence_file="/verif/evidence/%s.json" % pid,
        replay_cmd_template="./check --replay {path}",
        engine="harness/" + c["pkg"],
        level_claimed=dict(category=c.get("level", "exploration"), text=c.get("level_text", ""), design_ref="DESIGN.md section 5, " + pid),
        level_note=c.get("level_note", ""),
        technique=c.get("technique", "property-based testing (rapid) against an explicit oracle"),
    ))
m = dict(
    version=1,
    setup_cmd="./setup.sh",
    hooks=dict(guard="verif", enable="go build tag: every check builds its test binary with `go test -c -tags verif` from /repo's working tree (harness/go.mod replaces the module with /repo)",
               baseline_off_cmd="cd /repo && go test -mod=mod -json -vet=off -count=1 -timeout 25m ./...",
               source_commits=hooks_commits, add_only=True),
    engines=[dict(name="harness", path="/verif/harness", serves_properties=[c["property_id"] for c in checks],
                  kind_free_text="Go module with one rapid/native-fuzz test package per property, built against /repo via a replace directive; driver ./check shards it, merges evidence, stores replays")],
    checks=checks,
    notes="Driver: ./check <ID> <quick|thorough>; VERIF_SEED selects the PRNG seed (default 1). Exit 2 = inconclusive (timeout/short shard), never a violation. Known findings: known_findings.json.",
    not_applicable=na,
)
json.dump(m, open(os.path.join(ROOT, "MANIFEST.json"), "w"), indent=1)
print("checks:", len(checks), "not_applicable:", len(na))
