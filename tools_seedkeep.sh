#!/bin/bash
# usage: tools_seedkeep.sh <srcdir> <seed-id> <property> <detected: yes|no|...> <free text: what I ran / result>
set -eu
src=$1; sid=$2; prop=$3; det=$4; shift 4
dst=/verif/seeded/$sid
mkdir -p $dst
cp $src/patch.diff $dst/patch.diff
cp $src/demo_test.go $dst/demo_test.go
python3 - "$src/meta.json" "$dst/meta.json" "$prop" "$det" "$*" <<'PY'
import json,sys
m=json.load(open(sys.argv[1]))
out=dict(property=sys.argv[3], summary=m.get("summary"), needs=m.get("needs"), files=m.get("files"), demo_cmd=m.get("demo_cmd"),
 origin="independent sub-agent given only the property text and a scratch worktree",
 confirmed=dict(how="tools_seedverify.sh in a scratch worktree: demo passes on original, fails with patch; full repository suite passes with patch", suite_passes_with_patch=True, demo_fails_with_patch=True, demo_passes_without_patch=True),
 detected_by_check=sys.argv[4], ran=sys.argv[5])
json.dump(out,open(sys.argv[2],"w"),indent=1)
PY
echo kept $dst
