#!/bin/bash
# Builds every test binary offline from /repo's working tree (warms the Go build cache).
set -e
cd "$(dirname "$0")"
export GOFLAGS=-mod=mod GOPROXY=off GOSUMDB=off GOTOOLCHAIN=local
exec ./check --build-all
