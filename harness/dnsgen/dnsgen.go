// Package dnsgen holds rapid generators for DNS data that are sound by
// construction: names are built as wire labels and rendered with miekg's own
// unpacker (the form mosdns sees for every query that arrives from the wire).
package dnsgen

import (
	"fmt"
	"strings"

	"github.com/miekg/dns"
	"pgregory.net/rapid"
)

// Name is a domain name as wire labels.
type Name [][]byte

// Wire returns the uncompressed wire encoding.
func (n Name) Wire() []byte {
	var b []byte
	for _, l := range n {
		b = append(b, byte(len(l)))
		b = append(b, l...)
	}
	return append(b, 0)
}

// String renders the presentation format exactly as miekg/dns produces it when
// it unpacks the name from the wire.
func (n Name) String() string {
	s, _, err := dns.UnpackDomainName(n.Wire(), 0)
	if err != nil {
		panic(fmt.Sprintf("dnsgen: unpack of generated name failed: %v", err))
	}
	return s
}

// Lower returns a copy with ASCII letters lower-cased (DNS case-insensitive identity).
func (n Name) Lower() string {
	var sb strings.Builder
	for _, l := range n {
		sb.WriteByte(byte(len(l)))
		for _, c := range l {
			if c >= 'A' && c <= 'Z' {
				c += 32
			}
			sb.WriteByte(c)
		}
	}
	return sb.String()
}

func (n Name) wireLen() int {
	t := 1
	for _, l := range n {
		t += 1 + len(l)
	}
	return t
}

var commonLabels = []string{"a", "b", "ab", "bc", "c", "www", "example", "com", "net", "x"}

// GenLabel draws one label (1..63 octets).
func GenLabel(t *rapid.T, label string) []byte {
	switch rapid.IntRange(0, 9).Draw(t, label+"Kind") {
	case 0: // arbitrary bytes incl. dots, backslashes, NUL, high bytes
		n := rapid.IntRange(1, 8).Draw(t, label+"Len")
		return rapid.SliceOfN(rapid.Byte(), n, n).Draw(t, label+"Bytes")
	case 1: // special characters that need escaping in presentation format
		return []byte(rapid.SampledFrom([]string{".", "a.b", "\\", "\"", ";", " ", "@", "(", "$", "\x00", "\xff", "a\\.b", "1", "\\046"}).Draw(t, label+"Special"))
	case 2: // long label
		n := rapid.IntRange(40, 63).Draw(t, label+"Long")
		return []byte(strings.Repeat("l", n))
	case 3: // mixed case
		s := commonLabels[rapid.IntRange(0, len(commonLabels)-1).Draw(t, label+"Idx")]
		b := []byte(s)
		for i := range b {
			if rapid.Bool().Draw(t, label+"Up") {
				b[i] -= 32
			}
		}
		return b
	default:
		return []byte(commonLabels[rapid.IntRange(0, len(commonLabels)-1).Draw(t, label+"Idx")])
	}
}

// GenName draws a name of 1..255 wire octets (never the root alone unless allowRoot).
func GenName(t *rapid.T, label string) Name {
	var n Name
	k := rapid.IntRange(1, 5).Draw(t, label+"Labels")
	if rapid.IntRange(0, 19).Draw(t, label+"Huge") == 0 { // near the 255-octet limit
		for n.wireLen() < 250 {
			l := GenLabel(t, label)
			if n.wireLen()+1+len(l) > 255 {
				rest := 255 - n.wireLen() - 1
				if rest < 1 {
					break
				}
				l = []byte(strings.Repeat("z", rest))
			}
			n = append(n, l)
		}
		return n
	}
	for i := 0; i < k; i++ {
		l := GenLabel(t, label)
		if n.wireLen()+1+len(l) > 255 {
			break
		}
		n = append(n, l)
	}
	if len(n) == 0 {
		n = Name{[]byte("a")}
	}
	return n
}

// NameFromStrings builds a Name from plain labels.
func NameFromStrings(labels ...string) Name {
	var n Name
	for _, l := range labels {
		n = append(n, []byte(l))
	}
	return n
}

// Neighbour returns a name that differs minimally from n: one octet changed, a
// label boundary shifted, a label added/removed, or only case changed.
func Neighbour(t *rapid.T, n Name, label string) Name {
	c := make(Name, len(n))
	for i := range n {
		c[i] = append([]byte(nil), n[i]...)
	}
	switch rapid.IntRange(0, 5).Draw(t, label+"How") {
	case 0: // one octet
		i := rapid.IntRange(0, len(c)-1).Draw(t, label+"L")
		j := rapid.IntRange(0, len(c[i])-1).Draw(t, label+"O")
		c[i][j] ^= byte(rapid.IntRange(1, 255).Draw(t, label+"X"))
	case 1: // shift a label boundary: a.bc <-> ab.c
		if len(c) >= 2 {
			i := rapid.IntRange(0, len(c)-2).Draw(t, label+"B")
			if len(c[i+1]) >= 2 && len(c[i]) < 63 {
				c[i] = append(c[i], c[i+1][0])
				c[i+1] = c[i+1][1:]
			} else if len(c[i]) >= 2 && len(c[i+1]) < 63 {
				c[i+1] = append([]byte{c[i][len(c[i])-1]}, c[i+1]...)
				c[i] = c[i][:len(c[i])-1]
			}
		}
	case 2: // merge two labels with a literal dot octet: "a" "b" -> "a.b"
		if len(c) >= 2 && len(c[0])+1+len(c[1]) <= 63 {
			m := append(append(append([]byte(nil), c[0]...), '.'), c[1]...)
			c = append(Name{m}, c[2:]...)
		}
	case 3: // drop the first label
		if len(c) >= 2 {
			c = c[1:]
		}
	case 4: // prepend a label
		if c.wireLen()+2 <= 255 {
			c = append(Name{[]byte("p")}, c...)
		}
	case 5: // case only
		for i := range c {
			for j := range c[i] {
				if ch := c[i][j]; ch >= 'a' && ch <= 'z' {
					c[i][j] = ch - 32
				} else if ch >= 'A' && ch <= 'Z' {
					c[i][j] = ch + 32
				}
			}
		}
	}
	return c
}

// GenTTL draws a TTL over the full 32-bit range with a bias to boundaries.
func GenTTL(t *rapid.T, label string) uint32 {
	switch rapid.IntRange(0, 5).Draw(t, label+"Kind") {
	case 0:
		return rapid.SampledFrom([]uint32{0, 1, 2, 4, 5, 6, 29, 30, 31, 299, 300, 301, 3600, 1<<31 - 1, 1 << 31, 1<<32 - 1}).Draw(t, label+"B")
	case 1:
		return uint32(rapid.Uint32().Draw(t, label+"U"))
	default:
		return uint32(rapid.IntRange(1, 600).Draw(t, label+"S"))
	}
}

// GenRR draws one resource record owned by owner (presentation form).
func GenRR(t *rapid.T, owner string, ttl uint32, label string) dns.RR {
	h := func(rt uint16) dns.RR_Header {
		return dns.RR_Header{Name: owner, Rrtype: rt, Class: dns.ClassINET, Ttl: ttl}
	}
	switch rapid.IntRange(0, 7).Draw(t, label+"Type") {
	case 0:
		ip := rapid.SliceOfN(rapid.Byte(), 4, 4).Draw(t, label+"A")
		return &dns.A{Hdr: h(dns.TypeA), A: ip}
	case 1:
		ip := rapid.SliceOfN(rapid.Byte(), 16, 16).Draw(t, label+"AAAA")
		ip[0] = 0x20 // keep it a real IPv6 (not v4-mapped, which miekg would refuse to pack as AAAA)
		return &dns.AAAA{Hdr: h(dns.TypeAAAA), AAAA: ip}
	case 2:
		return &dns.CNAME{Hdr: h(dns.TypeCNAME), Target: GenName(t, label+"Cn").String()}
	case 3:
		n := rapid.IntRange(1, 3).Draw(t, label+"TxtN")
		var txt []string
		for i := 0; i < n; i++ {
			txt = append(txt, rapid.StringMatching(`[a-z0-9 ]{0,40}`).Draw(t, label+"Txt"))
		}
		return &dns.TXT{Hdr: h(dns.TypeTXT), Txt: txt}
	case 4:
		return &dns.MX{Hdr: h(dns.TypeMX), Preference: uint16(rapid.IntRange(0, 65535).Draw(t, label+"Pref")), Mx: GenName(t, label+"Mx").String()}
	case 5:
		return &dns.SOA{Hdr: h(dns.TypeSOA), Ns: GenName(t, label+"Ns").String(), Mbox: GenName(t, label+"Mb").String(),
			Serial: rapid.Uint32().Draw(t, label+"Ser"), Refresh: 1800, Retry: 900, Expire: 604800, Minttl: rapid.Uint32().Draw(t, label+"Min")}
	case 6:
		return &dns.SRV{Hdr: h(dns.TypeSRV), Priority: 1, Weight: 2, Port: uint16(rapid.IntRange(0, 65535).Draw(t, label+"Port")), Target: GenName(t, label+"Srv").String()}
	default:
		data := rapid.SliceOfN(rapid.Byte(), 0, 20).Draw(t, label+"Opaque")
		rt := uint16(rapid.IntRange(65280, 65534).Draw(t, label+"Priv"))
		return &dns.RFC3597{Hdr: h(rt), Rdata: fmt.Sprintf("%x", data)}
	}
}
