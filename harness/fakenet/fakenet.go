// Package fakenet provides a scripted transport.NetConn. The mosdns side sees an
// ordinary connection; the harness side decides what becomes readable and when,
// which Write/Read fails, when a (virtual) deadline fires, and can make Write
// synchronous: it returns only after the connection's reader consumed the scripted
// reaction and is parked in Read again.
package fakenet

import (
	"errors"
	"io"
	"net"
	"os"
	"sync"
	"time"
)

type item struct {
	data []byte
	err  error // terminal when data == nil
}

type Conn struct {
	Datagram bool // one Write/Read = one packet
	ID       int

	mu   sync.Mutex
	cond *sync.Cond

	inbound       []item
	readerWaiting int // number of Read calls currently parked with nothing to read
	readsStarted  int
	terminalSeen  bool
	consumed      int // inbound items fully consumed

	closed     bool
	closeCount int

	writes      [][]byte
	frames      [][]byte // complete frames written so far (parsed incrementally)
	frest       []byte   // stream: bytes after the last complete frame
	onWrite     func(seq int, b []byte) error // runs inside Write, before it returns
	syncWrites  bool
	failWriteAt map[int]error
	failAllWrites error
	slowClose     time.Duration
	failedWrites [][]byte
	writeGate   chan struct{} // non-nil: Write blocks until closed

	rdl          time.Time // virtual read deadline in force (zero = none)
	rdlSets      []time.Time
	rdlSetAt     []time.Time
	fired        bool
	holdSetRD    chan struct{} // non-nil: SetReadDeadline calls from the reader block here
	holdSetRDN   int
	wdlSets      int
	lastWriteAt  time.Time
	deadlineLog  []DeadlineEvent
}

type DeadlineEvent struct {
	Kind string // "read" | "both" | "write"
	At   time.Time
	To   time.Time
}

func New(datagram bool) *Conn {
	c := &Conn{Datagram: datagram, failWriteAt: map[int]error{}}
	c.cond = sync.NewCond(&c.mu)
	return c
}

var ErrClosed = net.ErrClosed

// ---------------------------------------------------------------- mosdns side

func (c *Conn) Read(p []byte) (int, error) {
	c.mu.Lock()
	defer c.mu.Unlock()
	c.readsStarted++
	for {
		if c.closed {
			return 0, ErrClosed
		}
		if c.fired {
			c.fired = false
			return 0, os.ErrDeadlineExceeded
		}
		if len(c.inbound) > 0 {
			it := &c.inbound[0]
			if it.data == nil {
				err := it.err
				// terminal conditions stay (every later Read fails the same way)
				c.terminalSeen = true
				c.cond.Broadcast()
				return 0, err
			}
			n := copy(p, it.data)
			if c.Datagram || n == len(it.data) {
				c.inbound = c.inbound[1:]
				c.consumed++
			} else {
				it.data = it.data[n:]
			}
			c.cond.Broadcast()
			return n, nil
		}
		c.readerWaiting++
		c.cond.Broadcast()
		c.cond.Wait()
		c.readerWaiting--
	}
}

func (c *Conn) Write(p []byte) (int, error) {
	c.mu.Lock()
	if c.closed {
		// an attempt all the same: remember what the caller tried to send
		c.failedWrites = append(c.failedWrites, append([]byte(nil), p...))
		c.mu.Unlock()
		return 0, ErrClosed
	}
	seq := len(c.writes)
	if err, ok := c.failWriteAt[seq]; ok {
		c.writes = append(c.writes, nil)
		c.failedWrites = append(c.failedWrites, append([]byte(nil), p...))
		c.mu.Unlock()
		return 0, err
	}
	if c.failAllWrites != nil {
		err := c.failAllWrites
		c.writes = append(c.writes, nil)
		c.failedWrites = append(c.failedWrites, append([]byte(nil), p...))
		c.mu.Unlock()
		return 0, err
	}
	gate := c.writeGate
	c.mu.Unlock()
	if gate != nil {
		<-gate
	}
	c.mu.Lock()
	if c.closed {
		c.failedWrites = append(c.failedWrites, append([]byte(nil), p...))
		c.mu.Unlock()
		return 0, ErrClosed
	}
	b := append([]byte(nil), p...)
	c.writes = append(c.writes, b)
	c.lastWriteAt = time.Now()
	if c.Datagram {
		c.frames = append(c.frames, b)
	} else {
		c.frest = append(c.frest, b...)
		for len(c.frest) >= 2 {
			l := int(c.frest[0])<<8 | int(c.frest[1])
			if len(c.frest)-2 < l {
				break
			}
			c.frames = append(c.frames, append([]byte(nil), c.frest[2:2+l]...))
			c.frest = c.frest[2+l:]
		}
	}
	h := c.onWrite
	sync := c.syncWrites
	c.cond.Broadcast()
	c.mu.Unlock()
	if h != nil {
		if err := h(seq, b); err != nil {
			return 0, err
		}
	}
	if sync {
		c.WaitReaderIdle(5 * time.Second)
	}
	return len(p), nil
}

func (c *Conn) Close() error {
	c.mu.Lock()
	d := c.slowClose
	c.mu.Unlock()
	if d > 0 {
		time.Sleep(d) // e.g. a TLS close_notify to a stalled peer
	}
	c.mu.Lock()
	c.closed = true
	c.closeCount++
	c.cond.Broadcast()
	c.mu.Unlock()
	return nil
}

func (c *Conn) SetDeadline(t time.Time) error {
	c.mu.Lock()
	if c.closed { // like a real socket
		c.mu.Unlock()
		return ErrClosed
	}
	c.deadlineLog = append(c.deadlineLog, DeadlineEvent{"both", time.Now(), t})
	c.setRDLocked(t)
	c.wdlSets++
	c.mu.Unlock()
	return nil
}

func (c *Conn) SetReadDeadline(t time.Time) error {
	c.mu.Lock()
	if c.holdSetRD != nil && c.holdSetRDN > 0 {
		c.holdSetRDN--
		g := c.holdSetRD
		c.cond.Broadcast()
		c.mu.Unlock()
		<-g
		c.mu.Lock()
	}
	if c.closed { // like a real socket
		c.mu.Unlock()
		return ErrClosed
	}
	c.deadlineLog = append(c.deadlineLog, DeadlineEvent{"read", time.Now(), t})
	c.setRDLocked(t)
	c.mu.Unlock()
	return nil
}

func (c *Conn) setRDLocked(t time.Time) {
	c.rdl = t
	c.rdlSets = append(c.rdlSets, t)
	c.rdlSetAt = append(c.rdlSetAt, time.Now())
	c.cond.Broadcast()
}

func (c *Conn) SetWriteDeadline(t time.Time) error {
	c.mu.Lock()
	if c.closed {
		c.mu.Unlock()
		return ErrClosed
	}
	c.wdlSets++
	c.deadlineLog = append(c.deadlineLog, DeadlineEvent{"write", time.Now(), t})
	c.mu.Unlock()
	return nil
}

// ---------------------------------------------------------------- harness side

// Feed makes b readable as one chunk (stream) or one packet (datagram).
func (c *Conn) Feed(b []byte) {
	c.mu.Lock()
	c.inbound = append(c.inbound, item{data: append([]byte(nil), b...)})
	c.cond.Broadcast()
	c.mu.Unlock()
}

// FeedChunks feeds a stream in the given chunk sizes (cycled). The whole message is
// queued atomically, so concurrent feeders never interleave their bytes.
func (c *Conn) FeedChunks(b []byte, sizes []int) {
	if len(sizes) == 0 || c.Datagram {
		c.Feed(b)
		return
	}
	c.mu.Lock()
	defer c.mu.Unlock()
	i := 0
	for len(b) > 0 {
		n := sizes[i%len(sizes)]
		i++
		if n <= 0 {
			n = 1
		}
		if n > len(b) {
			n = len(b)
		}
		c.inbound = append(c.inbound, item{data: append([]byte(nil), b[:n]...)})
		b = b[n:]
	}
	c.cond.Broadcast()
}

// FeedErr queues a terminal read error (io.EOF for a peer close).
func (c *Conn) FeedErr(err error) {
	if err == nil {
		err = io.EOF
	}
	c.mu.Lock()
	c.inbound = append(c.inbound, item{err: err})
	c.cond.Broadcast()
	c.mu.Unlock()
}

func (c *Conn) OnWrite(fn func(seq int, b []byte) error) {
	c.mu.Lock()
	c.onWrite = fn
	c.mu.Unlock()
}

func (c *Conn) SetSyncWrites(on bool) {
	c.mu.Lock()
	c.syncWrites = on
	c.mu.Unlock()
}

func (c *Conn) FailWrite(seq int, err error) {
	c.mu.Lock()
	c.failWriteAt[seq] = err
	c.mu.Unlock()
}

// FailWritesFromNow makes every later Write fail with err (a connection the peer has
// dropped without the client noticing).
func (c *Conn) FailWritesFromNow(err error) {
	c.mu.Lock()
	c.failAllWrites = err
	c.mu.Unlock()
}

// SetSlowClose makes Close take d before the connection counts as closed.
func (c *Conn) SetSlowClose(d time.Duration) {
	c.mu.Lock()
	c.slowClose = d
	c.mu.Unlock()
}

// FailedWrites returns the payloads of Writes that were made to fail.
func (c *Conn) FailedWrites() [][]byte {
	c.mu.Lock()
	defer c.mu.Unlock()
	return append([][]byte(nil), c.failedWrites...)
}

// BlockWrites makes every Write block until the returned func is called.
func (c *Conn) BlockWrites() (release func()) {
	g := make(chan struct{})
	c.mu.Lock()
	c.writeGate = g
	c.mu.Unlock()
	var once sync.Once
	return func() {
		once.Do(func() {
			c.mu.Lock()
			c.writeGate = nil
			c.mu.Unlock()
			close(g)
		})
	}
}

// HoldSetReadDeadline makes the next n SetReadDeadline calls block until release is called.
func (c *Conn) HoldSetReadDeadline(n int) (release func()) {
	g := make(chan struct{})
	c.mu.Lock()
	c.holdSetRD = g
	c.holdSetRDN = n
	c.mu.Unlock()
	var once sync.Once
	return func() { once.Do(func() { close(g) }) }
}

// WaitHeldSetRD waits until n held SetReadDeadline calls are blocked.
func (c *Conn) WaitHeldSetRD(remaining int, timeout time.Duration) bool {
	return c.waitFor(timeout, func() bool { return c.holdSetRDN <= remaining })
}

func (c *Conn) waitFor(timeout time.Duration, cond func() bool) bool {
	deadline := time.Now().Add(timeout)
	c.mu.Lock()
	defer c.mu.Unlock()
	for !cond() {
		if time.Now().After(deadline) {
			return false
		}
		// wake up periodically: the condition may depend on time-less state only changed under mu (Broadcast) -
		// a timer guards against a missed wake-up
		t := time.AfterFunc(20*time.Millisecond, func() { c.mu.Lock(); c.cond.Broadcast(); c.mu.Unlock() })
		c.cond.Wait()
		t.Stop()
	}
	return true
}

// WaitReaderIdle waits until everything fed so far was consumed and a Read is parked
// (or the connection is closed). It returns false on timeout.
func (c *Conn) WaitReaderIdle(timeout time.Duration) bool {
	return c.waitFor(timeout, func() bool {
		if c.closed {
			return true
		}
		pendingData := false
		for _, it := range c.inbound {
			if it.data != nil {
				pendingData = true
			}
		}
		if pendingData {
			return false
		}
		if len(c.inbound) > 0 { // only a terminal error is queued: idle once a Read has returned it
			return c.terminalSeen
		}
		return c.readerWaiting > 0
	})
}

// WaitWrites waits until at least n Write calls happened.
func (c *Conn) WaitWrites(n int, timeout time.Duration) bool {
	return c.waitFor(timeout, func() bool { return len(c.writes) >= n })
}

// WaitClosed waits until Close was called.
func (c *Conn) WaitClosed(timeout time.Duration) bool {
	return c.waitFor(timeout, func() bool { return c.closed })
}

func (c *Conn) Writes() [][]byte {
	c.mu.Lock()
	defer c.mu.Unlock()
	out := make([][]byte, len(c.writes))
	copy(out, c.writes)
	return out
}

func (c *Conn) NumWrites() int {
	c.mu.Lock()
	defer c.mu.Unlock()
	return len(c.writes)
}

func (c *Conn) IsClosed() bool {
	c.mu.Lock()
	defer c.mu.Unlock()
	return c.closed
}

func (c *Conn) CloseCount() int {
	c.mu.Lock()
	defer c.mu.Unlock()
	return c.closeCount
}

// ReadDeadline returns the read deadline currently in force and when it was set.
func (c *Conn) ReadDeadline() (deadline, setAt time.Time) {
	c.mu.Lock()
	defer c.mu.Unlock()
	if len(c.rdlSetAt) == 0 {
		return time.Time{}, time.Time{}
	}
	return c.rdl, c.rdlSetAt[len(c.rdlSetAt)-1]
}

func (c *Conn) DeadlineLog() []DeadlineEvent {
	c.mu.Lock()
	defer c.mu.Unlock()
	return append([]DeadlineEvent(nil), c.deadlineLog...)
}

func (c *Conn) LastWriteAt() time.Time {
	c.mu.Lock()
	defer c.mu.Unlock()
	return c.lastWriteAt
}

// FireReadDeadline makes the parked (or next) Read fail with os.ErrDeadlineExceeded,
// as if the deadline in force had expired. It reports whether a deadline is in force.
func (c *Conn) FireReadDeadline() bool {
	c.mu.Lock()
	defer c.mu.Unlock()
	if c.rdl.IsZero() {
		return false
	}
	c.fired = true
	c.cond.Broadcast()
	return true
}

// ---------------------------------------------------------------- framing helper (independent of mosdns)

// Frames returns every complete frame written so far. Datagram: one frame per Write.
// Stream: 2-byte big-endian length prefix, parsed across Write boundaries (independently
// of how mosdns split its writes). rest = trailing bytes that do not form a complete frame.
func (c *Conn) Frames() (frames [][]byte, rest []byte) {
	c.mu.Lock()
	defer c.mu.Unlock()
	return append([][]byte(nil), c.frames...), append([]byte(nil), c.frest...)
}

// FramesFrom returns the complete frames with index >= i.
func (c *Conn) FramesFrom(i int) [][]byte {
	c.mu.Lock()
	defer c.mu.Unlock()
	if i >= len(c.frames) {
		return nil
	}
	return append([][]byte(nil), c.frames[i:]...)
}

// Frame wraps msg for this connection's framing.
func (c *Conn) Frame(msg []byte) []byte {
	if c.Datagram {
		return msg
	}
	out := make([]byte, 2+len(msg))
	out[0], out[1] = byte(len(msg)>>8), byte(len(msg))
	copy(out[2:], msg)
	return out
}

var ErrInjected = errors.New("fakenet: injected fault")
