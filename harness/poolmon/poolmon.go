// Package poolmon wraps pool.GetBuf / pool.ReleaseBuf (exported variables) once per
// process: released buffers are poisoned, double releases and releases of foreign
// buffers are recorded.
package poolmon

import (
	"fmt"
	"sync"
	"unsafe"

	"github.com/IrineSistiana/mosdns/v5/pkg/pool"
)

var (
	once     sync.Once
	mu       sync.Mutex
	live     = map[uintptr]int{} // data pointer -> cap
	problems []string
	enabled  bool
)

const Poison = 0xA5

// Install wraps the pool. Safe to call many times.
func Install() {
	once.Do(func() {
		get, rel := pool.GetBuf, pool.ReleaseBuf
		pool.GetBuf = func(n int) *[]byte {
			b := get(n)
			if b != nil && cap(*b) > 0 {
				mu.Lock()
				live[uintptr(unsafe.Pointer(unsafe.SliceData(*b)))] = cap(*b)
				mu.Unlock()
			}
			return b
		}
		pool.ReleaseBuf = func(b *[]byte) {
			if b == nil {
				return
			}
			if cap(*b) > 0 {
				p := uintptr(unsafe.Pointer(unsafe.SliceData(*b)))
				mu.Lock()
				if _, ok := live[p]; !ok {
					if enabled {
						problems = append(problems, fmt.Sprintf("release of a buffer that is not live (double release or foreign buffer), len=%d cap=%d", len(*b), cap(*b)))
					}
				} else {
					delete(live, p)
				}
				mu.Unlock()
				full := (*b)[:cap(*b)]
				for i := range full {
					full[i] = Poison
				}
			}
			rel(b)
		}
	})
}

// Reset clears recorded problems and starts recording.
func Reset() {
	mu.Lock()
	problems = nil
	enabled = true
	mu.Unlock()
}

// Problems returns what was recorded since Reset.
func Problems() []string {
	mu.Lock()
	defer mu.Unlock()
	return append([]string(nil), problems...)
}
