// C11 — the cache store is safe, exact and bounded under concurrency.
// Concurrent op programs over pkg/cache with generator-chosen hashes; every op is
// stamped with an atomic logical clock and the history is judged afterwards.
// Built with -race in both tiers.
package c11

import (
	"fmt"
	"sync"
	"sync/atomic"
	"testing"
	"time"

	"github.com/IrineSistiana/mosdns/v5/pkg/cache"
	"github.com/IrineSistiana/mosdns/v5/pkg/concurrent_lru"
	"github.com/IrineSistiana/mosdns/v5/pkg/lru"
	"pgregory.net/rapid"

	"verif/harness/hx"
)

func TestMain(m *testing.M) { hx.Main(m) }

// All time arithmetic of the oracle uses the monotonic clock (durations since base), as the
// code under test does when it compares time.Time values that carry monotonic readings;
// wall-clock readings may be stepped or slewed underneath a running process.
var base = time.Now()

// K is a key whose hash is chosen by the generator (shard collisions / spreads).
type K struct {
	ID int
	H  uint64
}

func (k K) Sum() uint64 {
	if h := sumHook.Load(); h != nil {
		(*h)(k)
	}
	return k.H
}

// sumHook, when set, is called on every shard selection (Map.getShard calls key.Sum() before it
// takes the shard lock): a harness-owned schedule point between the internal steps of one operation.
var sumHook atomic.Pointer[func(K)]

// V identifies the Store that produced it.
type V struct {
	Key    int
	Serial int64
	Exp    int64 // nanoseconds since `base` on the monotonic clock
}

type Op struct {
	Kind  string `json:"k"`           // get | store | flush | len | range | bulk
	Key   int    `json:"key"`         // key index
	ExpMs int    `json:"exp_ms"`      // store: expiry offset from "now" in ms (may be negative)
	N     int    `json:"n,omitempty"` // bulk: how many distinct fresh keys
}

type Case struct {
	Size      int     `json:"size"`
	CleanerMs int     `json:"cleaner_ms"`
	Hashes    []uint64 `json:"hashes"` // hash per key index
	Progs     [][]Op  `json:"progs"`  // one program per goroutine
}

type ev struct {
	g         int
	op        Op
	inv, ret  int64
	wallInv   int64
	got       *V // get result (nil = nothing)
	n         int
	foreign   string
	storedSer int64
}

func genCase(t *rapid.T) Case {
	var c Case
	c.Size = rapid.SampledFrom([]int{-5, 0, 1, 7, 63, 64, 65, 100, 127, 128, 1000, 1024, 1025, 1100, 2048, 4097}).Draw(t, "size")
	c.CleanerMs = rapid.SampledFrom([]int{1, 2, 5, 1000}).Draw(t, "cleaner")
	nk := rapid.IntRange(1, 12).Draw(t, "nkeys")
	for i := 0; i < nk; i++ {
		switch rapid.IntRange(0, 2).Draw(t, "hk") {
		case 0:
			c.Hashes = append(c.Hashes, uint64(rapid.IntRange(0, 3).Draw(t, "hSame"))) // collide in few shards
		case 1:
			c.Hashes = append(c.Hashes, uint64(rapid.IntRange(0, 63).Draw(t, "hShard"))+64*uint64(rapid.IntRange(0, 5).Draw(t, "hMul")))
		default:
			c.Hashes = append(c.Hashes, rapid.Uint64().Draw(t, "hAny"))
		}
	}
	ng := rapid.IntRange(2, 8).Draw(t, "ngoroutines")
	for g := 0; g < ng; g++ {
		n := rapid.IntRange(5, 60).Draw(t, "nops")
		var p []Op
		for i := 0; i < n; i++ {
			op := Op{Key: rapid.IntRange(0, nk-1).Draw(t, "key")}
			switch rapid.IntRange(0, 19).Draw(t, "kind") {
			case 0, 1, 2, 3, 4, 5, 6, 7:
				op.Kind = "get"
			case 8, 9, 10, 11, 12, 13, 14:
				op.Kind = "store"
				op.ExpMs = rapid.SampledFrom([]int{-50, -1, 0, 1, 3, 10, 50, 1000, 3600000}).Draw(t, "exp")
			case 15:
				op.Kind = "flush"
			case 16:
				op.Kind = "len"
			case 17:
				op.Kind = "range"
			default:
				op.Kind = "bulk"
				op.N = rapid.SampledFrom([]int{10, 200, 1500, 3000}).Draw(t, "bulkN")
			}
			p = append(p, op)
		}
		c.Progs = append(c.Progs, p)
	}
	return c
}

func capacity(size int) int {
	if size < 1024 {
		return 1024 // documented minimum (also for <= 0: default 1024)
	}
	return size
}

func runCase(c Case, ctx *hx.Ctx) *hx.Failure {
	ca := cache.New[K, *V](cache.Opts{Size: c.Size, CleanerInterval: time.Duration(c.CleanerMs) * time.Millisecond})
	defer ca.Close()
	var clock, serial atomic.Int64
	var bulkID atomic.Int64
	bulkID.Store(1 << 20)
	hist := make([][]ev, len(c.Progs))
	var wg sync.WaitGroup
	start := make(chan struct{})
	for g, prog := range c.Progs {
		wg.Add(1)
		go func(g int, prog []Op) {
			defer wg.Done()
			<-start
			for _, op := range prog {
				e := ev{g: g, op: op}
				k := K{ID: op.Key, H: c.Hashes[op.Key]}
				switch op.Kind {
				case "get":
					e.wallInv = int64(time.Since(base))
					e.inv = clock.Add(1)
					v, exp, ok := ca.Get(k)
					e.ret = clock.Add(1)
					if ok {
						if v == nil {
							e.foreign = "ok=true with nil value"
						} else {
							e.got = v
							if int64(exp.Sub(base)) != v.Exp {
								e.foreign = fmt.Sprintf("expiry returned %d differs from the stored one %d", int64(exp.Sub(base)), v.Exp)
							}
						}
					}
				case "store":
					exp := time.Now().Add(time.Duration(op.ExpMs) * time.Millisecond)
					v := &V{Key: op.Key, Serial: serial.Add(1), Exp: int64(exp.Sub(base))}
					e.storedSer = v.Serial
					e.inv = clock.Add(1)
					ca.Store(k, v, exp)
					e.ret = clock.Add(1)
				case "flush":
					e.inv = clock.Add(1)
					ca.Flush()
					e.ret = clock.Add(1)
				case "len":
					e.inv = clock.Add(1)
					e.n = ca.Len()
					e.ret = clock.Add(1)
				case "range":
					e.inv = clock.Add(1)
					n := 0
					_ = ca.Range(func(key K, v *V, exp time.Time) error {
						n++
						if v == nil || (v.Key != key.ID) {
							e.foreign = fmt.Sprintf("Range saw key %d holding a value stored under another key", key.ID)
						}
						return nil
					})
					e.n = n
					e.ret = clock.Add(1)
				case "bulk":
					e.inv = clock.Add(1)
					exp := time.Now().Add(time.Hour)
					for i := 0; i < op.N; i++ {
						id := int(bulkID.Add(1))
						ca.Store(K{ID: id, H: uint64(id) * 0x9e3779b97f4a7c15}, &V{Key: id, Serial: serial.Add(1), Exp: int64(exp.Sub(base))}, exp)
					}
					e.n = ca.Len()
					e.ret = clock.Add(1)
				}
				hist[g] = append(hist[g], e)
			}
		}(g, prog)
	}
	close(start)
	if done, hang, detail := hx.WaitBounded(&wg, 30*time.Second, "c11.runCase", clock.Load); !done {
		if hang {
			return hx.Failf("C11/operation-never-returns", "concurrent Get/Store/Flush/Len/Range workers have not finished after 30 s and make no progress; stuck in the store:\n%s", detail)
		}
		ctx.Class("inconclusive:workers-slow")
		wg.Wait()
		return nil
	}

	f, st := judge(c.Size, hist, ca.Len(), ctx)
	if f != nil {
		return f
	}
	hits, gets, maxLen, ntFlushOrOverwrite := st.hits, st.gets, st.maxLen, st.nt
	ctx.Classf("size=%d", c.Size)
	if hits == 0 {
		ctx.Class("no-hit")
	} else {
		ctx.Class("has-hits")
	}
	if maxLen > 1000 {
		ctx.Class("filled>1000")
	}
	if (ntFlushOrOverwrite && hits > 0) || c.Size < 64 {
		ctx.Nontrivial(fmt.Sprintf("%v", c))
	}
	ctx.Sample(map[string]any{"size": c.Size, "goroutines": len(c.Progs), "gets": gets, "hits": hits, "max_len_seen": maxLen, "first_program": c.Progs[0]})
	return nil
}

func TestPropStore(t *testing.T) { hx.Check(t, 1000, genCase, runCase) }

func TestReplay(t *testing.T) {
	switch hx.ReplayTarget() {
	case "TestPropStoreStepped":
		hx.Replay(t, "TestPropStoreStepped", 3, runStepped)
	default:
		hx.Replay(t, "TestPropStore", 30, runCase)
	}
}

// ---------------------------------------------------------------- stepped histories: other operations run to completion
// between two internal steps of one operation (at its k-th shard selection), as a concurrent caller could.

type SOp struct {
	Kind   string `json:"k"`                // get | store | flush | fill | len
	Key    int    `json:"key"`              // hot key index
	ExpMs  int    `json:"exp_ms,omitempty"` // store
	HookAt int    `json:"hook_at,omitempty"` // run Nested at the operation's HookAt-th shard selection (0 = never)
	Nested []SOp  `json:"nested,omitempty"`
}

type SCase struct {
	Size   int      `json:"size"`
	Hashes []uint64 `json:"hashes"`
	Ops    []SOp    `json:"ops"`
}

func genSOp(t *rapid.T, nk int, nested bool) SOp {
	op := SOp{Key: rapid.IntRange(0, nk-1).Draw(t, "key")}
	w := []string{"get", "get", "store", "store", "store", "flush", "fill", "fill", "len"}
	if nested {
		w = []string{"get", "store", "flush", "flush", "fill", "fill", "fill", "len"}
	}
	op.Kind = rapid.SampledFrom(w).Draw(t, "kind")
	if op.Kind == "store" {
		op.ExpMs = rapid.SampledFrom([]int{-50, 3600000, 3600000, 3600000}).Draw(t, "exp")
	}
	if !nested && (op.Kind == "store" || op.Kind == "get") && rapid.IntRange(0, 2).Draw(t, "hooked") > 0 {
		op.HookAt = rapid.SampledFrom([]int{1, 2, 2, 3}).Draw(t, "hookAt")
		n := rapid.IntRange(1, 3).Draw(t, "nn")
		for i := 0; i < n; i++ {
			op.Nested = append(op.Nested, genSOp(t, nk, true))
		}
	}
	return op
}

func genSCase(t *rapid.T) SCase {
	c := SCase{Size: rapid.SampledFrom([]int{0, 100, 1024, 1024, 1100, 2048}).Draw(t, "size")}
	nk := rapid.IntRange(1, 4).Draw(t, "nkeys")
	for i := 0; i < nk; i++ {
		c.Hashes = append(c.Hashes, uint64(rapid.IntRange(0, 2).Draw(t, "h")))
	}
	n := rapid.IntRange(2, 14).Draw(t, "nops")
	for i := 0; i < n; i++ {
		c.Ops = append(c.Ops, genSOp(t, nk, false))
	}
	return c
}

func runStepped(c SCase, ctx *hx.Ctx) *hx.Failure {
	ca := cache.New[K, *V](cache.Opts{Size: c.Size, CleanerInterval: time.Hour})
	defer ca.Close()
	defer sumHook.Store(nil)
	capMax := capacity(c.Size)
	var clock, serial int64
	tick := func() int64 { clock++; return clock }
	var hist []ev
	fired, nestedRun := 0, 0
	var fail *hx.Failure
	var run func(op SOp, nested bool)
	run = func(op SOp, nested bool) {
		e := ev{op: Op{Kind: op.Kind, Key: op.Key, ExpMs: op.ExpMs}}
		k := K{ID: op.Key, H: c.Hashes[op.Key%len(c.Hashes)]}
		e.op.Key = k.ID
		if !nested && op.HookAt > 0 {
			calls := 0
			h := func(kk K) {
				if kk != k {
					return
				}
				calls++
				if calls == op.HookAt {
					sumHook.Store(nil)
					fired++
					for _, n := range op.Nested {
						run(n, true)
						nestedRun++
					}
				}
			}
			sumHook.Store(&h)
		}
		switch op.Kind {
		case "get":
			e.wallInv = int64(time.Since(base))
			e.inv = tick()
			v, exp, ok := ca.Get(k)
			e.ret = tick()
			if ok {
				if v == nil {
					e.foreign = "ok=true with nil value"
				} else {
					e.got = v
					if int64(exp.Sub(base)) != v.Exp {
						e.foreign = fmt.Sprintf("expiry returned %d differs from the stored one %d", int64(exp.Sub(base)), v.Exp)
					}
				}
			}
		case "store":
			exp := time.Now().Add(time.Duration(op.ExpMs) * time.Millisecond)
			serial++
			v := &V{Key: k.ID, Serial: serial, Exp: int64(exp.Sub(base))}
			e.storedSer = v.Serial
			e.inv = tick()
			ca.Store(k, v, exp)
			e.ret = tick()
		case "flush":
			e.inv = tick()
			ca.Flush()
			e.ret = tick()
		case "fill":
			// as many filler keys as the capacity, spread evenly over the shards
			e.op.Kind = "bulk"
			e.inv = tick()
			exp := time.Now().Add(time.Hour)
			for i := 0; i < capMax; i++ {
				id := 1<<20 + i
				serial++
				ca.Store(K{ID: id, H: uint64(i)}, &V{Key: id, Serial: serial, Exp: int64(exp.Sub(base))}, exp)
			}
			e.n = ca.Len()
			e.ret = tick()
		case "len":
			e.inv = tick()
			e.n = ca.Len()
			e.ret = tick()
		}
		sumHook.Store(nil)
		hist = append(hist, e)
		// the bound holds at every instant: look after every step, nested or not
		if n := ca.Len(); n > capMax && fail == nil {
			fail = hx.Failf("C11/capacity-exceeded", "configured size %d (capacity %d): %d entries after %s(key %d, hook at shard selection %d, nested %v) [nested=%v]", c.Size, capMax, n, op.Kind, op.Key, op.HookAt, op.Nested, nested)
		}
	}
	for _, op := range c.Ops {
		run(op, false)
		if fail != nil {
			return fail
		}
	}
	if f, _ := judge(c.Size, [][]ev{hist}, ca.Len(), ctx); f != nil {
		return f
	}
	if fired > 0 {
		ctx.Class("nested-fired")
		ctx.Nontrivial(fmt.Sprintf("%v", c))
	} else {
		ctx.Class("no-nested")
	}
	ctx.Sample(c)
	return nil
}

func TestPropStoreStepped(t *testing.T) { hx.Check(t, 3000, genSCase, runStepped) }

// ---------------------------------------------------------------- pkg/lru, pkg/concurrent_lru (listed in the anchors)

type LOp struct {
	Kind string `json:"k"` // add | get | del | pop | clean | flush
	Key  int    `json:"key"`
	Val  int    `json:"v"`
}

type LCase struct {
	Max int   `json:"max"`
	Ops []LOp `json:"ops"`
}

func genLCase(t *rapid.T) LCase {
	c := LCase{Max: rapid.IntRange(1, 6).Draw(t, "max")}
	n := rapid.IntRange(1, 60).Draw(t, "n")
	for i := 0; i < n; i++ {
		c.Ops = append(c.Ops, LOp{
			Kind: rapid.SampledFrom([]string{"add", "add", "add", "get", "get", "del", "pop", "clean", "flush"}).Draw(t, "k"),
			Key:  rapid.IntRange(0, 8).Draw(t, "key"), Val: rapid.IntRange(0, 1000).Draw(t, "v")})
	}
	return c
}

type kv struct{ k, v int }

func runLCase(c LCase, ctx *hx.Ctx) *hx.Failure {
	var evicted []kv
	l := lru.NewLRU[int, int](c.Max, func(k, v int) { evicted = append(evicted, kv{k, v}) })
	var model []kv // oldest first
	var wantEv []kv
	find := func(k int) int {
		for i, e := range model {
			if e.k == k {
				return i
			}
		}
		return -1
	}
	for step, op := range c.Ops {
		switch op.Kind {
		case "add":
			l.Add(op.Key, op.Val)
			if i := find(op.Key); i >= 0 {
				model = append(model[:i], model[i+1:]...)
			} else {
				for len(model) >= c.Max {
					wantEv = append(wantEv, model[0])
					model = model[1:]
				}
			}
			model = append(model, kv{op.Key, op.Val})
		case "get":
			v, ok := l.Get(op.Key)
			i := find(op.Key)
			if ok != (i >= 0) || (ok && v != model[i].v) {
				return hx.Failf("C11/lru-model", "step %d Get(%d) = %d,%v; model %v", step, op.Key, v, ok, model)
			}
			if i >= 0 {
				e := model[i]
				model = append(append(model[:i:i], model[i+1:]...), e)
			}
		case "del":
			l.Del(op.Key)
			if i := find(op.Key); i >= 0 {
				wantEv = append(wantEv, model[i])
				model = append(model[:i:i], model[i+1:]...)
			}
		case "pop":
			k, v, ok := l.PopOldest()
			if ok != (len(model) > 0) || (ok && (model[0] != kv{k, v})) {
				return hx.Failf("C11/lru-model", "step %d PopOldest = %d,%d,%v; model %v", step, k, v, ok, model)
			}
			if ok {
				model = model[1:]
			}
		case "clean":
			n := l.Clean(func(k, v int) bool { return k%2 == op.Key%2 })
			var keep []kv
			want := 0
			for _, e := range model {
				if e.k%2 == op.Key%2 {
					want++
					wantEv = append(wantEv, e)
				} else {
					keep = append(keep, e)
				}
			}
			model = keep
			if n != want {
				return hx.Failf("C11/lru-model", "step %d Clean removed %d, model %d", step, n, want)
			}
		case "flush":
			l.Flush()
			model = nil
		}
		if l.Len() != len(model) || l.Len() > c.Max {
			return hx.Failf("C11/lru-model", "step %d (%v): Len %d, model %d, max %d", step, op, l.Len(), len(model), c.Max)
		}
	}
	if fmt.Sprint(evicted) != fmt.Sprint(wantEv) {
		return hx.Failf("C11/lru-model", "evictions %v, model %v", evicted, wantEv)
	}
	ctx.Nontrivial(fmt.Sprintf("%v", c))
	ctx.Sample(c)
	return nil
}

func TestPropLRUModel(t *testing.T) { hx.Check(t, 5000, genLCase, runLCase) }

// sharded LRU under the race detector: values stay attached to their keys.
func TestShardedLRURace(t *testing.T) {
	man := hx.NewManual(t, false, "8 goroutines x 20000 ops (Add/Get/Del/Len, now and then Flush and Clean) on concurrent_lru.ShardedLRU under -race")
	man.Case("sharded-lru-race", func(ctx *hx.Ctx) *hx.Failure {
		l := concurrent_lru.NewShardedLRU[K, int](4, 8, nil)
		var wg sync.WaitGroup
		var bad atomic.Int64
		for g := 0; g < 8; g++ {
			wg.Add(1)
			go func(g int) {
				defer wg.Done()
				for i := 0; i < 20000; i++ {
					k := K{ID: (i*7 + g) % 64, H: uint64(i % 5)}
					switch i % 7 {
					case 0, 1, 2:
						if i%701 == 0 {
							l.Flush()
						} else if i%211 == 0 {
							l.Clean(func(key K, v int) bool {
								if v/1000 != key.ID {
									bad.Add(1)
								}
								return key.ID%3 == 0
							})
						}
						l.Add(k, k.ID*1000+g)
					case 3, 4:
						if v, ok := l.Get(k); ok && v/1000 != k.ID {
							bad.Add(1)
						}
					case 5:
						l.Del(k)
					case 6:
						if l.Len() > 4*8 {
							bad.Add(1)
						}
					}
				}
			}(g)
		}
		if done, hang, detail := hx.WaitBounded(&wg, 30*time.Second, "c11.TestShardedLRURace", nil); !done {
			if hang {
				return hx.Failf("C11/operation-never-returns", "sharded LRU: concurrent Add/Get/Del/Len workers have not finished after 30 s; stuck:\n%s", detail)
			}
			ctx.Class("inconclusive:workers-slow")
			wg.Wait()
			return nil
		}
		if bad.Load() != 0 {
			return hx.Failf("C11/sharded-lru", "%d anomalies (foreign value or size above shards*max)", bad.Load())
		}
		ctx.Nontrivial("sharded-lru-race-a")
		ctx.Nontrivial("sharded-lru-race-b")
		ctx.Sample("8 goroutines x 20000 Add/Get/Del/Len/Flush/Clean on 64 keys, 4 shards x 8")
		return nil
	})
}

type judgeStats struct {
	hits, gets, maxLen int
	nt                 bool
}

// judge applies the validity rule to a stamped history (one list per goroutine; intervals may nest).
func judge(size int, hist [][]ev, finalLen int, ctx *hx.Ctx) (*hx.Failure, judgeStats) {
	var st judgeStats
	capMax := capacity(size)
	// ------------------------------------------------------------ judge the history
	type storeRec struct {
		inv, ret int64
		key      int
	}
	stores := map[int64]storeRec{} // serial -> record
	var writes []ev                // stores and flushes (potential overwriters)
	for _, h := range hist {
		for _, e := range h {
			switch e.op.Kind {
			case "store":
				stores[e.storedSer] = storeRec{e.inv, e.ret, e.op.Key}
				writes = append(writes, e)
			case "flush":
				writes = append(writes, e)
			}
		}
	}
	hits, gets, staleChecked := 0, 0, 0
	maxLen := 0
	ntFlushOrOverwrite := false
	for _, h := range hist {
		for _, e := range h {
			if e.foreign != "" {
				return hx.Failf("C11/foreign-value", "%s (size=%d)", e.foreign, size), st
			}
			switch e.op.Kind {
			case "len", "range", "bulk":
				if e.n > maxLen {
					maxLen = e.n
				}
				if e.n > capMax {
					sig := "C11/capacity-exceeded"
					if size < 64 && e.n > capMax+256 {
						sig = "C11/capacity-unbounded-small-size"
					}
					return hx.Failf(sig, "configured size %d (capacity %d with the documented minimum of 1024): %s reports %d entries", size, capMax, e.op.Kind, e.n), st
				}
			case "get":
				gets++
				if e.got == nil {
					continue
				}
				hits++
				v := e.got
				if v.Key != e.op.Key {
					return hx.Failf("C11/foreign-value", "Get(key %d) returned a value stored under key %d", e.op.Key, v.Key), st
				}
				sr, ok := stores[v.Serial]
				if !ok || sr.key != e.op.Key {
					return hx.Failf("C11/foreign-value", "Get(key %d) returned a value no Store of that key produced", e.op.Key), st
				}
				if sr.inv > e.ret {
					return hx.Failf("C11/value-from-the-future", "Get returned a value whose Store began after the Get returned"), st
				}
				if v.Exp < e.wallInv {
					return hx.Failf("C11/expired-value", "Get(key %d) returned a value that expired %v before the Get was invoked", e.op.Key, time.Duration(e.wallInv-v.Exp)), st
				}
				for _, w := range writes {
					if w.op.Kind == "store" && (w.op.Key != e.op.Key || w.storedSer == v.Serial) {
						continue
					}
					if w.op.Kind == "store" && w.op.ExpMs < 1000 {
						// a Store whose expiry has already passed when it runs is a documented no-op and
						// overwrites nothing; only Stores that certainly took effect count as overwriters
						continue
					}
					staleChecked++
					if sr.ret < w.inv && w.ret < e.inv {
						what := "overwritten by a later Store"
						if w.op.Kind == "flush" {
							what = "flushed"
						}
						return hx.Failf("C11/stale-value", "Get(key %d) returned value #%d although it was %s that completed before the Get began (store ret=%d, %s inv=%d ret=%d, get inv=%d)", e.op.Key, v.Serial, what, sr.ret, w.op.Kind, w.inv, w.ret, e.inv), st
					}
					ntFlushOrOverwrite = true
				}
			}
		}
	}
	if n := finalLen; n > capMax {
		return hx.Failf("C11/capacity-exceeded", "configured size %d: Len() = %d at the end", size, n), st
	}
	st.hits, st.gets, st.maxLen, st.nt = hits, gets, maxLen, ntFlushOrOverwrite
	_ = staleChecked
	return nil, st
}
