// C16 — stream framing is exact in both directions.
package c16

import (
	"bytes"
	"context"
	"crypto/tls"
	"encoding/binary"
	"errors"
	"fmt"
	"io"
	"net"
	"runtime"
	"sort"
	"strings"
	"sync"
	"testing"
	"time"

	"github.com/IrineSistiana/mosdns/v5/pkg/dnsutils"
	"github.com/IrineSistiana/mosdns/v5/pkg/pool"
	"github.com/IrineSistiana/mosdns/v5/pkg/server"
	"github.com/IrineSistiana/mosdns/v5/pkg/utils"
	"github.com/miekg/dns"
	"github.com/quic-go/quic-go"
	"pgregory.net/rapid"

	"verif/harness/hx"
	"verif/harness/tx"
)

func TestMain(m *testing.M) { hx.Main(m) }

// ---------------------------------------------------------------- chunked reader

// chunkReader returns the stream in the drawn chunk sizes (cycled); size 0 entries are skipped.
type chunkReader struct {
	b       []byte
	chunks  []int
	i       int
	tailErr error // returned once the bytes are exhausted (nil = io.EOF)
}

func (r *chunkReader) Read(p []byte) (int, error) {
	if len(r.b) == 0 {
		if r.tailErr != nil {
			return 0, r.tailErr
		}
		return 0, io.EOF
	}
	n := 1
	if len(r.chunks) > 0 {
		n = r.chunks[r.i%len(r.chunks)]
		r.i++
		if n <= 0 {
			n = 1
		}
	}
	if n > len(p) {
		n = len(p)
	}
	if n > len(r.b) {
		n = len(r.b)
	}
	copy(p, r.b[:n])
	r.b = r.b[n:]
	return n, nil
}

func genChunks(t *rapid.T) []int {
	switch rapid.IntRange(0, 4).Draw(t, "chunkKind") {
	case 0:
		return []int{1} // 1-byte reads
	case 1:
		return []int{1, 1 << 20} // header split
	case 2:
		return []int{1 << 20}
	default:
		return rapid.SliceOfN(rapid.SampledFrom([]int{1, 2, 3, 7, 100, 511, 4096, 70000}), 1, 6).Draw(t, "chunks")
	}
}

func genLen(t *rapid.T) int {
	switch rapid.IntRange(0, 4).Draw(t, "lenKind") {
	case 0:
		return rapid.SampledFrom([]int{13, 14, 15, 255, 256, 257, 511, 512, 513, 4095, 4096, 8189, 8190, 8191, 8192, 8193, 16383, 16384, 32767, 32768, 65534, 65535}).Draw(t, "lenB")
	case 1:
		return rapid.IntRange(13, 65535).Draw(t, "lenAny")
	default:
		return rapid.IntRange(13, 600).Draw(t, "lenSmall")
	}
}

func fill(n int, seed byte) []byte {
	b := make([]byte, n)
	x := uint32(seed)*2654435761 + 12345
	for i := range b {
		x = x*1664525 + 1013904223
		b[i] = byte(x >> 24)
	}
	return b
}

// ---------------------------------------------------------------- (i)+(ii) raw round trip

type RawCase struct {
	Len    int   `json:"len"`
	Seed   byte  `json:"seed"`
	Chunks []int `json:"chunks"`
	Follow int   `json:"follow"` // a second frame of this length follows (0 = none)
}

func genRaw(t *rapid.T) RawCase {
	c := RawCase{Seed: rapid.Byte().Draw(t, "seed"), Chunks: genChunks(t)}
	if rapid.IntRange(0, 9).Draw(t, "oversize") == 0 {
		c.Len = rapid.IntRange(65536, 70000).Draw(t, "over")
	} else {
		c.Len = genLen(t)
	}
	if rapid.Bool().Draw(t, "follow") {
		c.Follow = genLen(t)
	}
	return c
}

type countWriter struct {
	bytes.Buffer
	writes int
}

func (w *countWriter) Write(p []byte) (int, error) { w.writes++; return w.Buffer.Write(p) }

func runRaw(c RawCase, ctx *hx.Ctx) *hx.Failure {
	msg := fill(c.Len, c.Seed)
	orig := append([]byte(nil), msg...)
	var w countWriter
	n, err := dnsutils.WriteRawMsgToTCP(&w, msg)
	if !bytes.Equal(msg, orig) {
		return hx.Failf("C16/write-mutates-input", "WriteRawMsgToTCP changed the caller's message")
	}
	if c.Len > 65535 {
		if err == nil {
			return hx.Failf("C16/oversize-accepted", "a %d-byte message was framed (wrote %d bytes)", c.Len, w.Len())
		}
		if w.Len() != 0 {
			return hx.Failf("C16/oversize-partially-written", "a refused %d-byte message left %d bytes on the stream", c.Len, w.Len())
		}
		ctx.Class("oversize-refused")
		ctx.Nontrivial(fmt.Sprintf("over|%d", c.Len))
		ctx.Sample(c)
		return nil
	}
	if err != nil {
		return hx.Failf("C16/write-fails", "WriteRawMsgToTCP(%d bytes): %v", c.Len, err)
	}
	want := make([]byte, 2+c.Len)
	binary.BigEndian.PutUint16(want, uint16(c.Len))
	copy(want[2:], msg)
	if !bytes.Equal(w.Bytes(), want) {
		return hx.Failf("C16/frame-bytes", "frame of a %d-byte message is not length||message (got %d bytes, header % x)", c.Len, w.Len(), w.Bytes()[:min(4, w.Len())])
	}
	if n != len(want) {
		return hx.Failf("C16/write-count", "WriteRawMsgToTCP returned n=%d for a %d-byte frame", n, len(want))
	}
	stream := append([]byte(nil), want...)
	var second []byte
	if c.Follow > 0 {
		second = fill(c.Follow, c.Seed+1)
		var w2 bytes.Buffer
		if _, err := dnsutils.WriteRawMsgToTCP(&w2, second); err != nil {
			return hx.Failf("C16/write-fails", "%v", err)
		}
		stream = append(stream, w2.Bytes()...)
	}
	r := &chunkReader{b: stream, chunks: c.Chunks}
	got, err := dnsutils.ReadRawMsgFromTCP(r)
	if err != nil {
		return hx.Failf("C16/read-fails", "reading back a %d-byte frame (chunks %v): %v", c.Len, c.Chunks, err)
	}
	if !bytes.Equal(*got, msg) {
		return hx.Failf("C16/round-trip", "a %d-byte message came back as %d bytes / different content (chunks %v)", c.Len, len(*got), c.Chunks)
	}
	pool.ReleaseBuf(got)
	if c.Follow > 0 {
		got2, err := dnsutils.ReadRawMsgFromTCP(r)
		if err != nil || !bytes.Equal(*got2, second) {
			return hx.Failf("C16/round-trip", "second frame (%d bytes) after a %d-byte frame: err=%v", c.Follow, c.Len, err)
		}
		pool.ReleaseBuf(got2)
	}
	if _, err := dnsutils.ReadRawMsgFromTCP(r); err == nil {
		return hx.Failf("C16/read-invents-frame", "a frame was returned from an exhausted stream")
	}
	ctx.Class("roundtrip")
	split := len(c.Chunks) > 0 && c.Chunks[0] == 1
	if split || c.Len <= 14 || c.Len >= 65534 || (c.Len >= 8189 && c.Len <= 8193) {
		ctx.Nontrivial(fmt.Sprintf("%d|%v|%d", c.Len, c.Chunks, c.Follow))
	}
	ctx.Sample(c)
	return nil
}

func TestPropRawRoundTrip(t *testing.T) { hx.Check(t, 16000, genRaw, runRaw) }

// all lengths 13..65535 (thorough), boundary set (quick)
func TestAllLengths(t *testing.T) {
	exh := hx.Thorough()
	man := hx.NewManual(t, exh, "every message length 13..65535 (thorough) or every 97th + boundaries (quick), three chunkings each")
	for l := 13; l <= 65535; l++ {
		if !exh && l%97 != 0 && l > 40 && l < 65500 && !(l >= 8180 && l <= 8200) {
			continue
		}
		l := l
		man.Case(RawCase{Len: l}, func(ctx *hx.Ctx) *hx.Failure {
			for _, ch := range [][]int{{1 << 20}, {1, 1 << 20}, {3, 5, 4096}} {
				c := RawCase{Len: l, Seed: byte(l), Chunks: ch}
				if f := runRaw(c, &hx.Ctx{}); f != nil {
					return f.As("TestPropRawRoundTrip", c)
				}
			}
			ctx.Nontrivial(fmt.Sprintf("len%d", l))
			if l == 13 || l == 65535 {
				ctx.Sample(RawCase{Len: l, Chunks: []int{1, 1 << 20}})
			}
			return nil
		})
	}
}

// ---------------------------------------------------------------- dns.Msg round trip / PackTCPBuffer

type MsgCase struct {
	Target int    `json:"target_size"` // approximate packed size
	Chunks []int  `json:"chunks"`
	ID     uint16 `json:"id"`
	Exact  bool   `json:"exact"` // the packed size is exactly Target (boundary sizes)
}

// buildExact returns a message whose uncompressed packed size is exactly target (target >= 1500).
func buildExact(target int, id uint16) *dns.Msg {
	m := new(dns.Msg)
	m.Id = id
	m.Response = true
	m.Question = []dns.Question{{Name: "c16.example.", Qtype: dns.TypeTXT, Qclass: dns.ClassINET}}
	const base, rr = 12 + 17, 13 + 10 + 1 + 200 // header+question; one TXT record with a 200-byte string
	n := (target - base) / rr
	rem := (target - base) - n*rr
	for i := 0; i < n; i++ {
		l := 200
		if rem > 0 {
			add := rem
			if add > 55 {
				add = 55
			}
			l += add
			rem -= add
		}
		m.Answer = append(m.Answer, &dns.TXT{Hdr: dns.RR_Header{Name: "c16.example.", Rrtype: dns.TypeTXT, Class: dns.ClassINET, Ttl: uint32(i)}, Txt: []string{strings.Repeat(string(rune('a'+i%26)), l)}})
	}
	return m
}

func buildMsg(target int, id uint16) *dns.Msg {
	m := new(dns.Msg)
	m.Id = id
	m.Response = true
	m.Question = []dns.Question{{Name: "c16.example.", Qtype: dns.TypeTXT, Qclass: dns.ClassINET}}
	size := 12 + 17
	i := 0
	for size < target {
		remain := target - size
		// one TXT RR costs 12 (owner uncompressed "c16.example." = 13) ... compute by packing below; approximate here
		l := 255
		if remain < 255+30 {
			l = remain - 30
			if l < 1 {
				l = 1
			}
		}
		m.Answer = append(m.Answer, &dns.TXT{Hdr: dns.RR_Header{Name: "c16.example.", Rrtype: dns.TypeTXT, Class: dns.ClassINET, Ttl: uint32(i)}, Txt: []string{strings.Repeat(string(rune('a'+i%26)), l)}})
		size += 13 + 10 + 1 + l
		i++
	}
	return m
}

func genMsgCase(t *rapid.T) MsgCase {
	c := MsgCase{Chunks: genChunks(t), ID: uint16(rapid.IntRange(0, 65535).Draw(t, "id"))}
	switch rapid.IntRange(0, 4).Draw(t, "k") {
	case 4:
		c.Exact = true
		c.Target = rapid.SampledFrom([]int{65535, 65534, 65533, 65536, 65537, 65600, 8187, 8188, 8189, 8190, 8191, 8192, 8193, 8194, 16384, 32767, 32768}).Draw(t, "exact")
	case 0:
		c.Target = rapid.IntRange(8100, 8300).Draw(t, "around8k")
	case 1:
		c.Target = rapid.IntRange(30, 65000).Draw(t, "any")
	case 2:
		c.Target = rapid.IntRange(65000, 67000).Draw(t, "near64k")
	default:
		c.Target = rapid.IntRange(30, 1500).Draw(t, "small")
	}
	return c
}

func runMsg(c MsgCase, ctx *hx.Ctx) *hx.Failure {
	m := buildMsg(c.Target, c.ID)
	if c.Exact {
		m = buildExact(c.Target, c.ID)
	}
	wire, perr := m.Copy().Pack()
	if c.Exact && perr == nil && len(wire) != c.Target {
		return hx.Failf("C16/harness", "buildExact(%d) packs to %d bytes", c.Target, len(wire))
	}
	if c.Exact {
		ctx.Classf("exact-size=%d", c.Target)
	}
	// PackTCPBuffer
	pb, err := pool.PackTCPBuffer(m)
	if perr != nil || len(wire) > 65535 {
		if err == nil {
			return hx.Failf("C16/oversize-accepted", "PackTCPBuffer framed a message of %d bytes (pack err %v)", len(wire), perr)
		}
		var w countWriter
		if _, err := dnsutils.WriteMsgToTCP(&w, m); err == nil || w.Len() != 0 {
			return hx.Failf("C16/oversize-accepted", "WriteMsgToTCP of a %d-byte message: err=%v, %d bytes written", len(wire), err, w.Len())
		}
		ctx.Class("oversize-refused")
		ctx.Nontrivial(fmt.Sprintf("over|%d", c.Target))
		return nil
	}
	if err != nil {
		return hx.Failf("C16/write-fails", "PackTCPBuffer(%d bytes): %v", len(wire), err)
	}
	want := make([]byte, 2+len(wire))
	binary.BigEndian.PutUint16(want, uint16(len(wire)))
	copy(want[2:], wire)
	if !bytes.Equal(*pb, want) {
		return hx.Failf("C16/frame-bytes", "PackTCPBuffer of a %d-byte message: frame differs from length||Pack() (frame %d bytes, first difference at %d)", len(wire), len(*pb), firstDiff(*pb, want))
	}
	pool.ReleaseBuf(pb)
	var w countWriter
	if _, err := dnsutils.WriteMsgToTCP(&w, m); err != nil {
		return hx.Failf("C16/write-fails", "WriteMsgToTCP: %v", err)
	}
	if !bytes.Equal(w.Bytes(), want) {
		return hx.Failf("C16/frame-bytes", "WriteMsgToTCP of a %d-byte message: stream differs from length||Pack() (first difference at %d)", len(wire), firstDiff(w.Bytes(), want))
	}
	got, n, err := dnsutils.ReadMsgFromTCP(&chunkReader{b: w.Bytes(), chunks: c.Chunks})
	if err != nil {
		return hx.Failf("C16/read-fails", "ReadMsgFromTCP of a %d-byte message: %v", len(wire), err)
	}
	if n != len(want) {
		return hx.Failf("C16/read-count", "ReadMsgFromTCP reports %d bytes read for a %d-byte frame", n, len(want))
	}
	gw, _ := got.Pack()
	if !bytes.Equal(gw, wire) {
		return hx.Failf("C16/round-trip", "dns.Msg of %d bytes changed in the round trip", len(wire))
	}
	ctx.Classf("size=%s", sizeBucket(len(wire)))
	if len(wire) >= 8180 || (len(c.Chunks) > 0 && c.Chunks[0] == 1) {
		ctx.Nontrivial(fmt.Sprintf("%d|%v", len(wire), c.Chunks))
	}
	ctx.Sample(map[string]any{"packed_size": len(wire), "chunks": c.Chunks})
	return nil
}

func firstDiff(a, b []byte) int {
	for i := 0; i < len(a) && i < len(b); i++ {
		if a[i] != b[i] {
			return i
		}
	}
	return min(len(a), len(b))
}

func sizeBucket(n int) string {
	switch {
	case n < 512:
		return "<512"
	case n < 8189:
		return "<8189"
	case n < 16384:
		return "8189..16383"
	default:
		return ">=16384"
	}
}

func TestPropMsgRoundTrip(t *testing.T) { hx.Check(t, 4000, genMsgCase, runMsg) }

// ---------------------------------------------------------------- (iii) arbitrary streams vs independent framer

type StreamCase struct {
	Data   []byte `json:"data"`
	Chunks []int  `json:"chunks"`
	Err    bool   `json:"tail_err"`
}

func genStream(t *rapid.T) StreamCase {
	var c StreamCase
	c.Chunks = genChunks(t)
	c.Err = rapid.Bool().Draw(t, "tailErr")
	nf := rapid.IntRange(0, 5).Draw(t, "nframes")
	for i := 0; i < nf; i++ {
		switch rapid.IntRange(0, 5).Draw(t, "fk") {
		case 0: // honest frame
			l := rapid.IntRange(13, 300).Draw(t, "l")
			c.Data = binary.BigEndian.AppendUint16(c.Data, uint16(l))
			c.Data = append(c.Data, fill(l, byte(i))...)
		case 1: // announces less than a header
			l := rapid.IntRange(0, 12).Draw(t, "short")
			c.Data = binary.BigEndian.AppendUint16(c.Data, uint16(l))
			c.Data = append(c.Data, fill(l, 1)...)
		case 2: // announces more than follows
			l := rapid.IntRange(13, 65535).Draw(t, "big")
			c.Data = binary.BigEndian.AppendUint16(c.Data, uint16(l))
			c.Data = append(c.Data, fill(rapid.IntRange(0, 40).Draw(t, "have"), 2)...)
		case 3:
			c.Data = append(c.Data, rapid.SliceOfN(rapid.Byte(), 0, 40).Draw(t, "garbage")...)
		case 4:
			c.Data = append(c.Data, rapid.Byte().Draw(t, "half")) // half a header
		case 5:
			l := 65535
			c.Data = binary.BigEndian.AppendUint16(c.Data, uint16(l))
			c.Data = append(c.Data, fill(l, 3)...)
		}
	}
	return c
}

var errTail = errors.New("injected read error")

// refFrames: independent framer. Returns complete frames until the first problem.
func refFrames(b []byte) (frames [][]byte, problem string) {
	for {
		if len(b) == 0 {
			return frames, "end"
		}
		if len(b) < 2 {
			return frames, "short-header"
		}
		l := int(b[0])<<8 | int(b[1])
		if l < 12 {
			return frames, "too-small"
		}
		if l == 12 {
			return frames, "exactly-header" // statement silent: not judged
		}
		if len(b)-2 < l {
			return frames, "short-body"
		}
		frames = append(frames, b[2:2+l])
		b = b[2+l:]
	}
}

func runStream(c StreamCase, ctx *hx.Ctx) *hx.Failure {
	want, problem := refFrames(c.Data)
	r := &chunkReader{b: append([]byte(nil), c.Data...), chunks: c.Chunks}
	if c.Err {
		r.tailErr = errTail
	}
	for i := 0; ; i++ {
		got, err := dnsutils.ReadRawMsgFromTCP(r)
		if i < len(want) {
			if err != nil {
				return hx.Failf("C16/read-fails", "frame %d (%d bytes) is complete on the stream but the reader failed: %v", i, len(want[i]), err)
			}
			if !bytes.Equal(*got, want[i]) {
				return hx.Failf("C16/wrong-frame", "frame %d: reader returned %d bytes, the stream announces and carries %d", i, len(*got), len(want[i]))
			}
			pool.ReleaseBuf(got)
			continue
		}
		// past the last complete frame
		if problem == "exactly-header" {
			ctx.Class("excluded:length-12")
			ctx.Excluded(1)
			return nil
		}
		if err == nil {
			return hx.Failf("C16/garbage-accepted", "after %d complete frames the stream has a %s, but the reader returned a %d-byte buffer", len(want), problem, len(*got))
		}
		break
	}
	ctx.Class("ends-with:" + problem)
	if problem != "end" || len(want) >= 2 {
		ctx.Nontrivial(fmt.Sprintf("%x|%v", c.Data[:min(len(c.Data), 64)], c.Chunks))
	}
	ctx.Sample(map[string]any{"stream_bytes": len(c.Data), "complete_frames": len(want), "then": problem, "chunks": c.Chunks})
	return nil
}

func TestPropArbitraryStream(t *testing.T) { hx.Check(t, 16000, genStream, runStream) }

func FuzzReadRaw(f *testing.F) {
	f.Add([]byte{0, 13, 1, 2, 3, 4, 5, 6, 7, 8, 9, 10, 11, 12, 13}, byte(1))
	f.Add([]byte{0, 0}, byte(0))
	f.Add([]byte{0xff, 0xff, 1}, byte(3))
	f.Add([]byte{0, 12, 0, 0, 0, 0, 0, 0, 0, 0, 0, 0, 0, 0}, byte(2))
	f.Fuzz(func(t *testing.T, data []byte, ch byte) {
		c := StreamCase{Data: data, Chunks: []int{int(ch%7) + 1, int(ch) * 3}}
		if fl := runStream(c, &hx.Ctx{}); fl != nil {
			t.Fatalf("%s: %s", fl.Sig, fl.Msg)
		}
	})
}

// ---------------------------------------------------------------- (iv) concurrent replies on one server connection

// pipeConn is an in-memory net.Conn. Like a real socket, one Write call is atomic with
// respect to other Write calls; between Write calls the goroutine yields, so an
// implementation that emits header and body with separate unsynchronised Writes
// interleaves visibly.
type pipeEnd struct {
	mu     sync.Mutex
	cond   *sync.Cond
	buf    []byte
	closed bool
	wmu    sync.Mutex
}

func newPipeEnd() *pipeEnd { p := &pipeEnd{}; p.cond = sync.NewCond(&p.mu); return p }

type pipeConn struct {
	in, out *pipeEnd
	rdl     time.Time
}

func (c *pipeConn) Read(p []byte) (int, error) {
	c.in.mu.Lock()
	defer c.in.mu.Unlock()
	for len(c.in.buf) == 0 && !c.in.closed {
		c.in.cond.Wait()
	}
	if len(c.in.buf) == 0 {
		return 0, io.EOF
	}
	n := copy(p, c.in.buf)
	c.in.buf = c.in.buf[n:]
	return n, nil
}

func (c *pipeConn) Write(p []byte) (int, error) {
	c.out.wmu.Lock()
	c.out.mu.Lock()
	if c.out.closed {
		c.out.mu.Unlock()
		c.out.wmu.Unlock()
		return 0, io.ErrClosedPipe
	}
	c.out.buf = append(c.out.buf, p...)
	c.out.cond.Broadcast()
	c.out.mu.Unlock()
	c.out.wmu.Unlock()
	runtime.Gosched()
	time.Sleep(20 * time.Microsecond)
	return len(p), nil
}

func (c *pipeConn) Close() error {
	for _, e := range []*pipeEnd{c.in, c.out} {
		e.mu.Lock()
		e.closed = true
		e.cond.Broadcast()
		e.mu.Unlock()
	}
	return nil
}
func (c *pipeConn) LocalAddr() net.Addr                { return &net.TCPAddr{IP: net.IPv4(127, 0, 0, 1), Port: 53} }
func (c *pipeConn) RemoteAddr() net.Addr               { return &net.TCPAddr{IP: net.IPv4(127, 0, 0, 2), Port: 5353} }
func (c *pipeConn) SetDeadline(t time.Time) error      { return nil }
func (c *pipeConn) SetReadDeadline(t time.Time) error  { return nil }
func (c *pipeConn) SetWriteDeadline(t time.Time) error { return nil }

func newPipe() (*pipeConn, *pipeConn) {
	a, b := newPipeEnd(), newPipeEnd()
	return &pipeConn{in: a, out: b}, &pipeConn{in: b, out: a}
}

type memListener struct {
	ch   chan net.Conn
	done chan struct{}
	once sync.Once
}

func (l *memListener) Accept() (net.Conn, error) {
	select {
	case c := <-l.ch:
		return c, nil
	case <-l.done:
		return nil, net.ErrClosed
	}
}
func (l *memListener) Close() error   { l.once.Do(func() { close(l.done) }); return nil }
func (l *memListener) Addr() net.Addr { return &net.TCPAddr{IP: net.IPv4(127, 0, 0, 1), Port: 53} }

// gateHandler holds every query until n have arrived, then answers them all at once.
type gateHandler struct {
	n     int
	sizes []int
	mu    sync.Mutex
	seen  int
	gate  chan struct{}
	want  map[uint16][]byte
}

func (h *gateHandler) Handle(_ context.Context, q *dns.Msg, _ server.QueryMeta, pack func(*dns.Msg) (*[]byte, error)) *[]byte {
	h.mu.Lock()
	h.seen++
	idx := h.seen - 1
	if h.seen == h.n {
		close(h.gate)
	}
	h.mu.Unlock()
	<-h.gate
	r := buildMsg(h.sizes[idx%len(h.sizes)], q.Id)
	r.Question = q.Question
	wire, err := r.Copy().Pack()
	if err != nil {
		return nil
	}
	h.mu.Lock()
	h.want[q.Id] = wire
	h.mu.Unlock()
	p, err := pack(r)
	if err != nil {
		return nil
	}
	return p
}

type SrvCase struct {
	Sizes     []int  `json:"sizes"`
	N         int    `json:"n"`
	Transport string `json:"transport"` // mem | tcp | tls
}

func genSrv(t *rapid.T) SrvCase {
	c := SrvCase{N: rapid.SampledFrom([]int{1, 2, 3, 8, 24, 64}).Draw(t, "n")}
	c.Sizes = rapid.SliceOfN(rapid.SampledFrom([]int{30, 100, 500, 1400, 8000, 8200, 16500, 40000, 60000}), 1, 6).Draw(t, "sizes")
	c.Transport = "mem"
	if hx.Thorough() {
		c.Transport = rapid.SampledFrom([]string{"mem", "mem", "tcp", "tls", "doq"}).Draw(t, "transport")
	}
	return c
}

var (
	certOnce sync.Once
	tlsCert  tls.Certificate
)

// runDoQ: one query per stream against server.ServeDoQ on loopback; every stream must carry
// exactly one intact frame.
func runDoQ(c SrvCase, ctx *hx.Ctx) *hx.Failure {
	h := &gateHandler{n: c.N, sizes: c.Sizes, gate: make(chan struct{}), want: map[uint16][]byte{}}
	certOnce.Do(func() {
		cert, err := utils.GenerateCertificate("c16.test")
		if err != nil {
			panic(err)
		}
		tlsCert = cert
	})
	ln, err := quic.ListenAddr("127.0.0.1:0", &tls.Config{Certificates: []tls.Certificate{tlsCert}, NextProtos: []string{"doq"}}, &quic.Config{MaxIncomingStreams: 200})
	if err != nil {
		ctx.Class("skipped:no-quic-listener")
		return nil
	}
	defer ln.Close()
	go server.ServeDoQ(ln, h, server.DoQServerOpts{})
	dctx, cancel := context.WithTimeout(context.Background(), 20*time.Second)
	defer cancel()
	conn, err := quic.DialAddr(dctx, ln.Addr().String(), &tls.Config{InsecureSkipVerify: true, NextProtos: []string{"doq"}}, &quic.Config{})
	if err != nil {
		return hx.Failf("C16/harness", "quic dial: %v", err)
	}
	defer conn.CloseWithError(0, "")
	type res struct {
		frame []byte
		rest  int
		err   error
	}
	out := make(chan res, c.N)
	for i := 0; i < c.N; i++ {
		go func(i int) {
			st, err := conn.OpenStreamSync(dctx)
			if err != nil {
				out <- res{err: err}
				return
			}
			q := new(dns.Msg)
			q.Id = uint16(1000 + i)
			q.Question = []dns.Question{{Name: fmt.Sprintf("q%d.c16.example.", i), Qtype: dns.TypeTXT, Qclass: dns.ClassINET}}
			w, _ := q.Pack()
			st.Write(append(binary.BigEndian.AppendUint16(nil, uint16(len(w))), w...))
			st.Close()
			all, err := io.ReadAll(st)
			if len(all) < 2 {
				out <- res{err: fmt.Errorf("stream carried %d bytes (%v)", len(all), err)}
				return
			}
			l := int(all[0])<<8 | int(all[1])
			if len(all)-2 < l {
				out <- res{err: fmt.Errorf("stream announces %d bytes and carries %d", l, len(all)-2)}
				return
			}
			out <- res{frame: all[2 : 2+l], rest: len(all) - 2 - l}
		}(i)
	}
	var frames [][]byte
	for i := 0; i < c.N; i++ {
		select {
		case r := <-out:
			if r.err != nil {
				return hx.Failf("C16/stream-broken", "DoQ: %v", r.err)
			}
			if r.rest != 0 {
				return hx.Failf("C16/frame-bytes", "DoQ stream carries %d bytes after its frame", r.rest)
			}
			frames = append(frames, r.frame)
		case <-time.After(30 * time.Second):
			return hx.Failf("C16/stream-stalled", "DoQ: only %d of %d replies arrived", len(frames), c.N)
		}
	}
	if f := compareFrames(h, frames, c); f != nil {
		return f
	}
	ctx.Class("transport=doq")
	ctx.Nontrivial(fmt.Sprintf("%v", c))
	ctx.Sample(c)
	return nil
}

func runSrv(c SrvCase, ctx *hx.Ctx) *hx.Failure {
	if c.Transport == "doq" {
		return runDoQ(c, ctx)
	}
	h := &gateHandler{n: c.N, sizes: c.Sizes, gate: make(chan struct{}), want: map[uint16][]byte{}}
	var client net.Conn
	var ln net.Listener
	served := false
	switch c.Transport {
	case "mem":
		ml := &memListener{ch: make(chan net.Conn, 1), done: make(chan struct{})}
		cl, sv := newPipe()
		ml.ch <- sv
		client, ln = cl, ml
	case "tcp", "tls":
		l, err := net.Listen("tcp", "127.0.0.1:0")
		if err != nil {
			return hx.Failf("C16/harness", "listen: %v", err)
		}
		ln = l
		if c.Transport == "tls" {
			certOnce.Do(func() {
				cert, err := utils.GenerateCertificate("c16.test")
				if err != nil {
					panic(err)
				}
				tlsCert = cert
			})
			ln = tls.NewListener(l, &tls.Config{Certificates: []tls.Certificate{tlsCert}})
			go server.ServeTCP(ln, h, server.TCPServerOpts{IdleTimeout: 30 * time.Second}) // must accept before the client's handshake can finish
			served = true
			cc, err := tls.Dial("tcp", l.Addr().String(), &tls.Config{InsecureSkipVerify: true})
			if err != nil {
				l.Close()
				return hx.Failf("C16/harness", "tls dial: %v", err)
			}
			client = cc
		} else {
			cc, err := net.Dial("tcp", l.Addr().String())
			if err != nil {
				l.Close()
				return hx.Failf("C16/harness", "dial: %v", err)
			}
			client = cc
		}
	}
	if !served {
		go server.ServeTCP(ln, h, server.TCPServerOpts{IdleTimeout: 30 * time.Second})
	}
	defer ln.Close()
	defer client.Close()

	// pipeline n queries
	go func() {
		for i := 0; i < c.N; i++ {
			q := new(dns.Msg)
			q.Id = uint16(1000 + i)
			q.Question = []dns.Question{{Name: fmt.Sprintf("q%d.c16.example.", i), Qtype: dns.TypeTXT, Qclass: dns.ClassINET}}
			w, _ := q.Pack()
			fr := binary.BigEndian.AppendUint16(nil, uint16(len(w)))
			client.Write(append(fr, w...))
		}
	}()
	// read the byte stream and re-frame it independently
	type res struct {
		frames [][]byte
		err    error
	}
	done := make(chan res, 1)
	go func() {
		var out [][]byte
		hdr := make([]byte, 2)
		for len(out) < c.N {
			if _, err := io.ReadFull(client, hdr); err != nil {
				done <- res{out, err}
				return
			}
			b := make([]byte, int(hdr[0])<<8|int(hdr[1]))
			if _, err := io.ReadFull(client, b); err != nil {
				done <- res{out, err}
				return
			}
			out = append(out, b)
		}
		done <- res{out, nil}
	}()
	var r res
	select {
	case r = <-done:
	case <-time.After(60 * time.Second):
		client.Close()
		r = <-done
		// frames did not line up (a mis-framed stream makes the reader wait for bytes that never come)
		if f := compareFrames(h, r.frames, c); f != nil {
			return f
		}
		return hx.Failf("C16/stream-stalled", "only %d of %d replies could be framed from the stream within 60 s", len(r.frames), c.N)
	}
	if r.err != nil {
		if f := compareFrames(h, r.frames, c); f != nil {
			return f
		}
		return hx.Failf("C16/stream-broken", "after %d of %d frames: %v", len(r.frames), c.N, r.err)
	}
	if f := compareFrames(h, r.frames, c); f != nil {
		return f
	}
	if len(r.frames) != c.N {
		return hx.Failf("C16/frames-missing", "%d frames for %d queries", len(r.frames), c.N)
	}
	ctx.Class("transport=" + c.Transport)
	big := false
	for i := 0; i < c.N; i++ {
		if c.Sizes[i%len(c.Sizes)] >= 16384 {
			big = true
		}
	}
	if c.N >= 2 && big {
		ctx.Nontrivial(fmt.Sprintf("%v", c))
	}
	ctx.Sample(c)
	return nil
}

func compareFrames(h *gateHandler, frames [][]byte, c SrvCase) *hx.Failure {
	h.mu.Lock()
	defer h.mu.Unlock()
	var got, want []string
	for _, f := range frames {
		got = append(got, string(f))
	}
	for _, w := range h.want {
		want = append(want, string(w))
	}
	sort.Strings(got)
	sort.Strings(want)
	// every frame received must be exactly one of the replies the handler produced
	wi := map[string]int{}
	for _, w := range want {
		wi[w]++
	}
	for _, g := range got {
		if wi[g] == 0 {
			id := -1
			if len(g) >= 2 {
				id = int(g[0])<<8 | int(g[1])
			}
			return hx.Failf("C16/reply-not-intact", "%d concurrent replies (sizes %v) on one %s connection: a %d-byte frame (id field %d) is not one of the replies the handler produced - frames are interleaved or corrupted", c.N, c.Sizes, c.Transport, len(g), id)
		}
		wi[g]--
	}
	return nil
}

func TestPropServerConcurrentReplies(t *testing.T) { hx.Check(t, 600, genSrv, runSrv) }

// ---------------------------------------------------------------- replays

func TestReplay(t *testing.T) {
	switch hx.ReplayTarget() {
	case "TestPropRawRoundTrip":
		hx.Replay(t, "TestPropRawRoundTrip", 1, runRaw)
	case "TestPropMsgRoundTrip":
		hx.Replay(t, "TestPropMsgRoundTrip", 1, runMsg)
	case "TestPropArbitraryStream":
		hx.Replay(t, "TestPropArbitraryStream", 1, runStream)
	case "TestPropServerConcurrentReplies":
		hx.Replay(t, "TestPropServerConcurrentReplies", 10, runSrv)
	default:
		t.Skip("no replay")
	}
}

// ---------------------------------------------------------------- query side: what the upstream transports put on a stream

// The transports frame the caller's query bytes themselves (copyMsgWithLenHdr). For every size around the 16-bit
// limit: up to 65535 bytes the stream carries length||bytes exactly; anything longer is refused and nothing that could
// be mis-read as a frame reaches the stream.
func TestUpstreamQueryFraming(t *testing.T) {
	man := hx.NewManual(t, true, "query sizes {13, 512, 65534, 65535, 65536, 65537, 70000, 131072} x {tdc, pipe, reuse} engines on a stream connection")
	for _, engine := range []string{"tdc", "pipe", "reuse"} {
		for _, size := range []int{13, 512, 65534, 65535, 65536, 65537, 70000, 131072} {
			engine, size := engine, size
			man.Case(map[string]any{"engine": engine, "size": size}, func(ctx *hx.Ctx) *hx.Failure {
				env := tx.NewEnv(false)
				eng, err := tx.NewEngine(engine, env, tx.Opt{MaxCQ: 8, LazyQueue: 8})
				if err != nil {
					return hx.Failf("C16/harness", "%v", err)
				}
				defer eng.Close()
				q := fill(size, byte(size))
				q[2] &^= 0x80 // a query
				cx, cancel := context.WithTimeout(context.Background(), 300*time.Millisecond)
				_, xerr := eng.Exchange(cx, q)
				cancel()
				var stream []byte
				for _, fc := range env.Conns() {
					for _, w := range fc.Writes() {
						stream = append(stream, w...)
					}
				}
				if size > 65535 {
					if xerr == nil {
						return hx.Failf("C16/oversize-accepted", "engine=%s: a %d-byte query was accepted", engine, size)
					}
					if len(stream) != 0 {
						return hx.Failf("C16/oversize-misframed", "engine=%s: a %d-byte query cannot be framed, yet %d bytes were written to the stream (announced length %d)", engine, size, len(stream), int(stream[0])<<8|int(stream[1]))
					}
					ctx.Class("oversize-query-refused")
				} else {
					want := append(binary.BigEndian.AppendUint16(nil, uint16(size)), q...)
					if len(stream) >= 4 {
						copy(want[2:4], stream[2:4]) // the pipelining transports send their own message ID
					}
					if !bytes.Equal(stream, want) {
						return hx.Failf("C16/frame-bytes", "engine=%s: a %d-byte query was written as %d bytes that differ from length||query (first difference at %d)", engine, size, len(stream), firstDiff(stream, want))
					}
					ctx.Class("query-framed")
				}
				ctx.Nontrivial(fmt.Sprintf("%s/%d", engine, size))
				ctx.Sample(map[string]any{"engine": engine, "size": size, "bytes_on_stream": len(stream)})
				return nil
			})
		}
	}
}

// ---------------------------------------------------------------- server side: a frame that stalls past the idle timeout

type stallHandler struct{ gate chan struct{} }

func (h *stallHandler) Handle(_ context.Context, q *dns.Msg, _ server.QueryMeta, pack func(*dns.Msg) (*[]byte, error)) *[]byte {
	if q.Question[0].Name == "first.c16.test." {
		<-h.gate
	}
	r := new(dns.Msg)
	r.SetReply(q)
	r.Answer = []dns.RR{&dns.TXT{Hdr: dns.RR_Header{Name: q.Question[0].Name, Rrtype: dns.TypeTXT, Class: dns.ClassINET, Ttl: 1}, Txt: []string{"answer"}}}
	p, err := pack(r)
	if err != nil {
		return nil
	}
	return p
}

// A client sends one complete query (still being handled), then the length header and a part of the body of a second
// frame, and stalls for longer than the server's idle timeout. The part of the body it did send is, read on its own, a
// well-formed frame with a query for "injected.c16.test.". The server may close the connection or go on waiting; it must
// never treat bytes from inside a frame as the start of a frame, i.e. no reply to the injected query may ever arrive.
func TestServerStalledFrame(t *testing.T) {
	man := hx.NewManual(t, true, "loopback TCP server, idle timeout 60 ms; a frame stalls for 250 ms after {header only, header + part of the body} while another query is in flight")
	for _, sentBody := range []bool{false, true} {
		sentBody := sentBody
		man.Case(map[string]any{"body_partly_sent": sentBody}, func(ctx *hx.Ctx) *hx.Failure {
			l, err := net.Listen("tcp", "127.0.0.1:0")
			if err != nil {
				ctx.Class("skipped:no-loopback-listener")
				return nil
			}
			defer l.Close()
			h := &stallHandler{gate: make(chan struct{})}
			go server.ServeTCP(l, h, server.TCPServerOpts{IdleTimeout: 60 * time.Millisecond})
			c, err := net.Dial("tcp", l.Addr().String())
			if err != nil {
				return hx.Failf("C16/harness", "dial: %v", err)
			}
			defer c.Close()
			frame := func(name string, id uint16) []byte {
				q := new(dns.Msg)
				q.SetQuestion(name, dns.TypeTXT)
				q.Id = id
				w, _ := q.Pack()
				return append(binary.BigEndian.AppendUint16(nil, uint16(len(w))), w...)
			}
			c.Write(frame("first.c16.test.", 1))
			inner := frame("injected.c16.test.", 2)
			outer := binary.BigEndian.AppendUint16(nil, uint16(len(inner)+40))
			if sentBody {
				outer = append(outer, inner...)
			}
			c.Write(outer)
			time.Sleep(250 * time.Millisecond) // several idle timeouts
			if !sentBody {
				c.Write(inner) // the body continues at last (still 40 bytes short of the announced length)
				time.Sleep(150 * time.Millisecond)
			}
			close(h.gate)
			c.SetReadDeadline(time.Now().Add(500 * time.Millisecond))
			var names []string
			for {
				hdr := make([]byte, 2)
				if _, err := io.ReadFull(c, hdr); err != nil {
					break
				}
				b := make([]byte, binary.BigEndian.Uint16(hdr))
				if _, err := io.ReadFull(c, b); err != nil {
					break
				}
				r := new(dns.Msg)
				if r.Unpack(b) == nil && len(r.Question) == 1 {
					names = append(names, r.Question[0].Name)
				}
			}
			for _, n := range names {
				if n == "injected.c16.test." {
					return hx.Failf("C16/reframed-inside-frame", "the server answered a query that was never sent as a frame: its bytes were part of the body of a frame that stalled past the idle timeout (body partly sent at once: %v); replies received: %v", sentBody, names)
				}
			}
			ctx.Nontrivial(fmt.Sprintf("stalled-frame/%v", sentBody))
			ctx.Sample(map[string]any{"body_partly_sent": sentBody, "replies": names})
			return nil
		})
	}
}
