// C07 — exchanges always terminate; Close releases everything.
package c07

import (
	"context"
	"fmt"
	"io"
	"strings"
	"sync"
	"testing"
	"time"

	"github.com/IrineSistiana/mosdns/v5/pkg/upstream/transport"
	"pgregory.net/rapid"

	"verif/harness/fakenet"
	"verif/harness/hx"
	"verif/harness/peer"
	"verif/harness/quiesce"
	"verif/harness/tx"
)

func TestMain(m *testing.M) { hx.Main(m) }

type Act struct {
	K string `json:"k"` // start | start_cancelled | cancel | deliver | fault | fire | close | close_race
	J int    `json:"j"`
	F string `json:"f,omitempty"` // fault kind: eof | readerr | short | garbage | writeerr
}

type Case struct {
	Engine    string `json:"engine"` // tdc | pipe | reuse
	Datagram  bool   `json:"datagram"`
	Dial      string `json:"dial"` // ok | fail | block
	Acts      []Act  `json:"acts"`
	SlowClose bool   `json:"slow_close"`
	DOA       bool   `json:"dead_on_arrival"` // the peer closes every connection right after it is established
}

func genCase(t *rapid.T) Case {
	var c Case
	c.Engine = rapid.SampledFrom([]string{"tdc", "pipe", "pipe", "reuse", "reuse"}).Draw(t, "engine")
	if c.Engine != "reuse" {
		c.Datagram = rapid.Bool().Draw(t, "datagram")
	}
	c.Dial = "ok"
	if c.Engine != "tdc" {
		c.Dial = rapid.SampledFrom([]string{"ok", "ok", "ok", "ok", "fail", "block"}).Draw(t, "dial")
	}
	c.SlowClose = rapid.IntRange(0, 3).Draw(t, "slow") == 0
	c.DOA = c.Dial == "block" && rapid.Bool().Draw(t, "doa")
	n := rapid.IntRange(1, 24).Draw(t, "nacts")
	c.Acts = append(c.Acts, Act{K: "start"})
	if c.Dial == "ok" && rapid.IntRange(0, 7).Draw(t, "lateReply") == 3 {
		// the reply to an abandoned query arrives while other queries wait on the same connection, then silence
		m := rapid.IntRange(1, 3).Draw(t, "others")
		for i := 0; i < m; i++ {
			c.Acts = append(c.Acts, Act{K: "start"})
		}
		c.Acts = append(c.Acts, Act{K: "cancel", J: rapid.IntRange(0, m).Draw(t, "cj")}, Act{K: "deliver_late"}, Act{K: "fire", J: rapid.IntRange(0, 3).Draw(t, "fj")})
	}
	for i := 0; i < n; i++ {
		k := rapid.SampledFrom([]string{"start", "start", "start", "start_cancelled", "cancel", "deliver", "deliver", "fault", "fault", "fire", "close", "close_race", "release_dial", "deliver_late"}).Draw(t, "k")
		a := Act{K: k, J: rapid.IntRange(0, 63).Draw(t, "j")}
		if k == "fault" {
			fs := []string{"eof", "readerr", "garbage", "writeerr"}
			if !c.Datagram {
				fs = append(fs, "short")
			}
			a.F = rapid.SampledFrom(fs).Draw(t, "f")
		}
		c.Acts = append(c.Acts, a)
	}
	return c
}

type call struct {
	idx    int
	name   string
	cancel context.CancelFunc
	done   chan struct{}
	err    error
	resp   *[]byte
	state  string // pending | ended
	cancelled, lateDone bool
}

const grace = 5 * time.Second

func runCase(c Case, ctx *hx.Ctx) *hx.Failure {
	w := peer.NewWatcher()
	env := tx.NewEnv(c.Datagram)
	dialGate := make(chan struct{})
	var dgOnce sync.Once
	openDial := func() { dgOnce.Do(func() { close(dialGate) }) }
	defer openDial()
	if c.Dial == "block" {
		env.DialGate = dialGate
	}
	env.OnDial = func(cn int, fc *fakenet.Conn) error {
		if c.Dial == "fail" {
			return tx.ErrDial
		}
		if c.SlowClose {
			fc.SetSlowClose(5 * time.Millisecond)
		}
		w.Install(cn, fc)
		if c.DOA {
			fc.FeedErr(io.EOF)
		}
		return nil
	}
	// production parameters (they decide the liveness bound)
	opt := tx.Opt{MaxCQ: 64, LazyQueue: 64, IdleTimeout: 10 * time.Second}
	if c.Datagram {
		opt = tx.Opt{MaxCQ: 4096, LazyQueue: 4096, IdleTimeout: 5 * time.Minute}
	}
	eng, err := tx.NewEngine(c.Engine, env, opt)
	if err != nil {
		return hx.Failf("C07/harness", "%v", err)
	}
	closed := false
	closeEngine := func() *hx.Failure {
		if closed {
			return nil
		}
		closed = true
		cd := make(chan struct{})
		go func() { eng.Close(); close(cd) }()
		select {
		case <-cd:
		case <-time.After(grace):
			var stuck []string
			for _, g := range quiesce.With("pkg/upstream/transport.") {
				if g.Parked() && (strings.Contains(g.Stack, "sync.(*Mutex).Lock") || strings.Contains(g.Stack, "sync.(*Once)")) {
					stuck = append(stuck, firstFrames(g.Stack))
				}
			}
			return hx.Failf("C07/close-deadlock", "Close() of the %s transport did not return within %v; goroutines blocked on locks:\n%s", c.Engine, grace, strings.Join(stuck, "\n---\n"))
		}
		return nil
	}
	defer func() {
		openDial()
		if !closed {
			done := make(chan struct{})
			go func() { eng.Close(); close(done) }()
			select {
			case <-done:
			case <-time.After(grace):
			}
		}
	}()

	var calls []*call
	pending := func() []*call {
		var out []*call
		for _, cl := range calls {
			if cl.state == "pending" {
				select {
				case <-cl.done:
					cl.state = "ended"
				default:
					out = append(out, cl)
				}
			}
		}
		return out
	}
	start := func(cancelled bool) *call {
		cl := &call{idx: len(calls), name: fmt.Sprintf("k%d.c07.test.", len(calls)), done: make(chan struct{}), state: "pending"}
		cx, cancel := context.WithCancel(context.Background())
		cl.cancel = cancel
		if cancelled {
			cancel()
		}
		q := peer.Query(uint16(cl.idx), cl.name, 16)
		go func() {
			cl.resp, cl.err = eng.Exchange(cx, q)
			close(cl.done)
		}()
		calls = append(calls, cl)
		return cl
	}
	mustEnd := func(cl *call, why string) *hx.Failure {
		select {
		case <-cl.done:
			cl.state = "ended"
			return nil
		case <-time.After(grace):
		}
		// still running: parked or just slow?
		parked := true
		gs := quiesce.With("c07.runCase.func")
		for _, g := range gs {
			if !g.Parked() {
				parked = false
			}
		}
		if !parked {
			select {
			case <-cl.done:
				cl.state = "ended"
				return nil
			case <-time.After(30 * time.Second):
			}
		}
		var stacks []string
		for _, g := range quiesce.With("c07.runCase.func") {
			if strings.Contains(g.Stack, "Exchange") {
				lines := strings.Split(g.Stack, "\n")
				if len(lines) > 16 {
					lines = lines[:16]
				}
				stacks = append(stacks, strings.Join(lines, "\n"))
			}
		}
		return hx.Failf("C07/call-does-not-return", "engine=%s datagram=%v: call %d did not return within %v after %s; callers still inside the transport:\n%s", c.Engine, c.Datagram, cl.idx, grace, why, strings.Join(stacks, "\n--\n"))
	}
	onWire := func(cl *call) bool { return len(w.Seen(cl.name)) > 0 }
	faults, nCancel, nFire, nLate := 0, 0, 0, 0
	injectedWhilePending := false

	for _, a := range c.Acts {
		switch a.K {
		case "start", "start_cancelled":
			if len(calls) >= 16 {
				continue
			}
			cl := start(a.K == "start_cancelled")
			if closed {
				// after Close: fails immediately, without touching the network
				if f := mustEnd(cl, "being started on a closed transport"); f != nil {
					return f
				}
				if cl.err == nil {
					return hx.Failf("C07/call-after-close-succeeds", "a call started after Close returned a reply")
				}
				// (dials cannot be attributed to a call: an earlier cancelled query may still be dialling in the
				// background; what can be attributed is whether this call's query reached a connection)
				if onWire(cl) {
					return hx.Failf("C07/call-after-close-touches-network", "a call started after Close wrote its query to a connection (%v)", cl.err)
				}
				continue
			}
			if a.K == "start_cancelled" {
				if f := mustEnd(cl, "being started with an already cancelled context"); f != nil {
					return f
				}
				if cl.err == nil {
					return hx.Failf("C07/cancelled-call-succeeds", "a call with a cancelled context returned a reply nobody sent")
				}
				continue
			}
			if c.Dial == "ok" {
				// let it reach the wire (or end) so that later steps find it in flight
				deadline := time.Now().Add(grace)
				for time.Now().Before(deadline) && !onWire(cl) {
					select {
					case <-cl.done:
						deadline = time.Now()
					default:
						time.Sleep(100 * time.Microsecond)
					}
				}
			} else if c.Dial == "fail" {
				if f := mustEnd(cl, "the dial failed"); f != nil {
					return f
				}
				if cl.err == nil {
					return hx.Failf("C07/harness", "dial fails but the call succeeded")
				}
			} else {
				env.WaitDials(1, grace)
			}
		case "release_dial":
			// the blocked dial completes now; queries queued on the dialing connection proceed (or fail, if the
			// peer closes the fresh connection at once) - either way every one of them, and every later call, ends
			if c.Dial != "block" {
				continue
			}
			openDial()
			if c.DOA {
				for _, cl := range pending() {
					if f := mustEnd(cl, "the dial finished and the peer closed the fresh connection at once"); f != nil {
						return f
					}
				}
			}
		case "cancel":
			p := pending()
			if len(p) == 0 {
				continue
			}
			cl := p[a.J%len(p)]
			cl.cancel()
			cl.cancelled = true
			nCancel++
			injectedWhilePending = true
			if f := mustEnd(cl, "its context was cancelled"); f != nil {
				return f
			}
			if cl.err == nil {
				// a reply may have raced the cancellation only if one was delivered; none was
				return hx.Failf("C07/cancelled-call-succeeds", "call %d was cancelled while no reply existed, yet returned a reply", cl.idx)
			}
		case "deliver_late":
			// the reply to a query whose caller has given up arrives after all (its connection is still open)
			var cand []*call
			for _, cl := range calls {
				if cl.cancelled && !cl.lateDone && cl.state == "ended" && onWire(cl) {
					seen := w.Seen(cl.name)
					if fc := w.Conn(seen[len(seen)-1].Conn); fc != nil && !fc.IsClosed() {
						cand = append(cand, cl)
					}
				}
			}
			if len(cand) == 0 {
				continue
			}
			cl := cand[a.J%len(cand)]
			seen := w.Seen(cl.name)
			s := seen[len(seen)-1]
			w.Answer(s, 0, nil)
			cl.lateDone = true
			nLate++
			if fc := w.Conn(s.Conn); fc != nil {
				fc.WaitReaderIdle(time.Second)
			}
		case "deliver":
			p := pending()
			var cand []*call
			for _, cl := range p {
				if onWire(cl) {
					cand = append(cand, cl)
				}
			}
			if len(cand) == 0 {
				continue
			}
			cl := cand[a.J%len(cand)]
			// The reply goes to the query's most recent transmission. A fault injected earlier may still be making the
			// transport move the query to another connection: if a newer transmission shows up after the reply was sent,
			// that reply went to an attempt the transport had already given up, and the new transmission is answered.
			var f *hx.Failure
			for round := 0; round < 5; round++ {
				quiesce.WaitGone("loseWithErr", time.Second)
				seen := w.Seen(cl.name)
				s := seen[len(seen)-1]
				if fc := w.Conn(s.Conn); fc == nil || fc.IsClosed() {
					f = nil
					break
				}
				w.Answer(s, 0, nil)
				if f = mustEnd(cl, "its reply was delivered"); f == nil {
					break
				}
				if len(w.Seen(cl.name)) == len(seen) {
					break // no newer transmission: the reply reached the attempt the call is waiting on
				}
			}
			if f != nil {
				return f
			}
		case "fault":
			conns := env.Conns()
			if len(conns) == 0 {
				continue
			}
			fc := conns[a.J%len(conns)]
			if fc.IsClosed() {
				continue
			}
			// calls in flight on that connection
			var on []*call
			for _, cl := range pending() {
				for _, s := range w.Seen(cl.name) {
					if s.Conn == fc.ID {
						on = append(on, cl)
						break
					}
				}
			}
			faults++
			if len(on) > 0 {
				injectedWhilePending = true
			}
			switch a.F {
			case "eof":
				fc.FeedErr(io.EOF)
			case "readerr":
				fc.FeedErr(fakenet.ErrInjected)
			case "short":
				fc.Feed([]byte{0, 3, 1, 2, 3})
			case "garbage":
				if c.Datagram {
					fc.Feed([]byte{1, 2, 3}) // too short for a header: ignored, the connection stays up
					continue
				}
				fc.Feed([]byte{0xff, 0xff, 1, 2, 3, 4}) // announces 65535 bytes, then the peer goes away
				fc.FeedErr(io.EOF)
			case "writeerr":
				fc.FailWritesFromNow(fakenet.ErrInjected)
				if !c.Datagram {
					continue // only the next write notices
				}
				continue
			}
			if !fc.WaitClosed(grace) {
				return hx.Failf("C07/fault-leaves-connection-open", "engine=%s: connection %d got a %s but was not closed within %v", c.Engine, fc.ID, a.F, grace)
			}
			// every call that was in flight on it ends: with an error, or with a reply obtained elsewhere
			for _, cl := range on {
				// a retry may be waiting on another connection for a reply: answer it there
				deadline := time.Now().Add(grace)
				for time.Now().Before(deadline) {
					select {
					case <-cl.done:
						deadline = time.Now()
						continue
					default:
					}
					seen := w.Seen(cl.name)
					s := seen[len(seen)-1]
					if s.Conn != fc.ID {
						if ofc := w.Conn(s.Conn); ofc != nil && !ofc.IsClosed() {
							w.Answer(s, 0, nil)
							break
						}
					}
					time.Sleep(200 * time.Microsecond)
				}
				if f := mustEnd(cl, fmt.Sprintf("connection %d failed (%s)", fc.ID, a.F)); f != nil {
					return f
				}
			}
		case "fire":
			// a silent server: the connection must have a read deadline in force that is not far away
			conns := env.Conns()
			if len(conns) == 0 {
				continue
			}
			fc := conns[a.J%len(conns)]
			if fc.IsClosed() {
				continue
			}
			var on []*call
			for _, cl := range pending() {
				seen := w.Seen(cl.name)
				if len(seen) > 0 && seen[len(seen)-1].Conn == fc.ID {
					on = append(on, cl)
				}
			}
			if len(on) == 0 {
				continue
			}
			fc.WaitReaderIdle(time.Second)
			// let the caller arm the waiting-for-reply deadline: it does so right after its write returned, which the
			// harness cannot see; the verdict is taken when the deadline is near, or after 2 s of it staying far
			var dl, last time.Time
			for until := time.Now().Add(2 * time.Second); ; {
				time.Sleep(300 * time.Microsecond)
				dl, _ = fc.ReadDeadline()
				last = fc.LastWriteAt()
				if (!dl.IsZero() && dl.Sub(last) <= 60*time.Second) || time.Now().After(until) {
					break
				}
			}
			if dl.IsZero() {
				return hx.Failf("C07/no-liveness-deadline", "engine=%s datagram=%v: %d queries are waiting on connection %d and the server is silent, but no read deadline is in force", c.Engine, c.Datagram, len(on), fc.ID)
			}
			if far := dl.Sub(last); far > 60*time.Second {
				return hx.Failf("C07/liveness-deadline-too-far", "engine=%s datagram=%v: %d queries are waiting on connection %d; the read deadline in force is %v after the last send (tens of seconds at most expected)", c.Engine, c.Datagram, len(on), fc.ID, far.Round(time.Second))
			}
			nFire++
			injectedWhilePending = true
			fc.FireReadDeadline()
			if !fc.WaitClosed(grace) {
				return hx.Failf("C07/deadline-does-not-close", "engine=%s: the read deadline expired on connection %d but it was not closed", c.Engine, fc.ID)
			}
			for _, cl := range on {
				// retried elsewhere? answer there
				deadline := time.Now().Add(grace)
				for time.Now().Before(deadline) {
					select {
					case <-cl.done:
						deadline = time.Now()
						continue
					default:
					}
					seen := w.Seen(cl.name)
					s := seen[len(seen)-1]
					if s.Conn != fc.ID {
						if ofc := w.Conn(s.Conn); ofc != nil && !ofc.IsClosed() {
							w.Answer(s, 0, nil)
							break
						}
					}
					time.Sleep(200 * time.Microsecond)
				}
				if f := mustEnd(cl, "the read deadline of its connection expired"); f != nil {
					return f
				}
			}
		case "close", "close_race":
			if closed {
				continue
			}
			p := pending()
			if len(p) > 0 {
				injectedWhilePending = true
			}
			if a.K == "close_race" {
				// connections fail on their own at the moment the transport is closed
				conns := env.Conns()
				go func() {
					time.Sleep(time.Millisecond)
					for _, fc := range conns {
						fc.FeedErr(io.EOF)
					}
				}()
			}
			if f := closeEngine(); f != nil {
				return f
			}
			for _, cl := range p {
				if f := mustEnd(cl, "the transport was closed"); f != nil {
					return f
				}
				if cl.err == nil {
					return hx.Failf("C07/pending-call-succeeds-after-close", "call %d was pending at Close and returned a reply nobody sent", cl.idx)
				}
			}
		}
	}
	// final Close and release check
	p := pending()
	if f := closeEngine(); f != nil {
		return f
	}
	for _, cl := range p {
		if f := mustEnd(cl, "the transport was closed"); f != nil {
			return f
		}
	}
	for _, fc := range env.Conns() {
		if !fc.WaitClosed(grace) {
			return hx.Failf("C07/connection-not-closed", "engine=%s: connection %d is still open after Close", c.Engine, fc.ID)
		}
	}
	if c.Dial == "block" && env.DialsStarted() > 0 {
		deadline := time.Now().Add(grace)
		// every dial has either run to completion or had its context cancelled
		for time.Now().Before(deadline) && env.DialsCancelled()+env.DialsFinished() < env.DialsStarted() {
			time.Sleep(200 * time.Microsecond)
		}
		if n := env.DialsStarted() - env.DialsCancelled() - env.DialsFinished(); n > 0 {
			// Close has returned, so a cancelled dial context is already closed: a dial goroutine that is still
			// parked in its select was not cancelled; one that is merely waiting for the CPU was.
			parked := 0
			for _, g := range quiesce.With("tx.(*Env).Dial") {
				if g.Parked() {
					parked++
				}
			}
			if parked == 0 {
				ctx.Class("inconclusive:dial-goroutines-not-scheduled")
				return nil
			}
			return hx.Failf("C07/dial-not-cancelled", "engine=%s: %d dial(s) are still blocked after Close (their context was not cancelled)", c.Engine, n)
		}
	}
	if left := quiesce.WaitGone("pkg/upstream/transport.", grace); len(left) > 0 {
		parked := 0
		for _, g := range left {
			if g.Parked() {
				parked++
			}
		}
		if parked > 0 {
			return hx.Failf("C07/goroutine-leak", "engine=%s: %d transport goroutine(s) still parked %v after Close:\n%s", c.Engine, parked, grace, firstFrames(left[0].Stack))
		}
		ctx.Class("inconclusive:goroutines-still-runnable")
	}
	ctx.Classf("engine=%s", c.Engine)
	ctx.Classf("dial=%s", c.Dial)
	if faults > 0 {
		ctx.Class("fault")
	}
	if nFire > 0 {
		ctx.Class("deadline-fired")
	}
	if nCancel > 0 {
		ctx.Class("cancel")
	}
	if nLate > 0 {
		ctx.Class("late-reply-to-abandoned-query")
	}
	if injectedWhilePending {
		ctx.Nontrivial(fmt.Sprintf("%v", c))
	}
	ctx.Sample(c)
	return nil
}

func firstFrames(stack string) string {
	lines := strings.Split(stack, "\n")
	if len(lines) > 14 {
		lines = lines[:14]
	}
	return strings.Join(lines, "\n")
}

func TestPropTerminates(t *testing.T) { hx.Check(t, 5000, genCase, runCase) }

func TestReplay(t *testing.T) {
	switch hx.ReplayTarget() {
	case "TestPropUpstreamClose":
		hx.Replay(t, "TestPropUpstreamClose", 5, runUpClose)
	default:
		hx.Replay(t, "TestPropTerminates", 20, runCase)
	}
}

// Deterministic deadline-ordering scenario (the race the source used to comment on):
// the reader's SetReadDeadline(idle) is held until the caller's SetReadDeadline(waiting
// reply) has been applied, then released. With a query outstanding and a silent peer the
// deadline in force must still be tens of seconds away at most. If the implementation
// serialises the two calls, holding the reader also blocks the caller; the hold is then
// released after a grace period (progress only - the resulting order is always correct).
func TestDeadlineOrdering(t *testing.T) {
	man := hx.NewManual(t, true, "reader's idle deadline forced after the caller's waiting-reply deadline; udp parameters (idle 5 min) and tcp parameters (idle 10 s), fresh and used connection")
	for _, dg := range []bool{true, false} {
		for _, used := range []bool{false, true} {
			dg, used := dg, used
			man.Case(map[string]any{"datagram": dg, "used_connection": used}, func(ctx *hx.Ctx) *hx.Failure {
				w := peer.NewWatcher()
				fc := fakenet.New(dg)
				w.Install(0, fc)
				var release func()
				if !used {
					release = fc.HoldSetReadDeadline(1) // the read loop's very first SetReadDeadline
				}
				idle := 10 * time.Second
				if dg {
					idle = 5 * time.Minute
				}
				env := tx.NewEnv(dg)
				_ = env
				dc := newConn(dg, idle, fc)
				defer dc.Close()
				exchange := func(name string, id uint16) (chan error, context.CancelFunc) {
					cx, cancel := context.WithCancel(context.Background())
					done := make(chan error, 1)
					rx, _ := dc.ReserveNewQuery()
					if rx == nil {
						done <- fmt.Errorf("no capacity")
						return done, cancel
					}
					go func() { _, err := rx.ExchangeReserved(cx, peer.Query(id, name, 16)); done <- err }()
					return done, cancel
				}
				if used {
					// one complete exchange first; hold the read loop's next SetReadDeadline (the one after the reply)
					d1, c1 := exchange("warm.c07.test.", 1)
					if !w.Wait("warm.c07.test.", 1, grace) {
						return hx.Failf("C07/harness", "warm-up not sent")
					}
					release = fc.HoldSetReadDeadline(1)
					w.Answer(w.Seen("warm.c07.test.")[0], 0, nil)
					if err := <-d1; err != nil {
						return hx.Failf("C07/harness", "warm-up failed: %v", err)
					}
					c1()
				}
				fc.WaitHeldSetRD(0, grace) // the reader is now blocked inside SetReadDeadline(idle)
				d2, c2 := exchange("q.c07.test.", 2)
				defer c2()
				// wait until the caller applied its own deadline (a later SetReadDeadline in the log) - or, if the
				// implementation serialises, until the grace period is over
				deadline := time.Now().Add(300 * time.Millisecond)
				for time.Now().Before(deadline) {
					if len(fc.DeadlineLog()) > 0 && w.Wait("q.c07.test.", 1, time.Millisecond) {
						if dl, _ := fc.ReadDeadline(); !dl.IsZero() {
							break
						}
					}
					time.Sleep(time.Millisecond)
				}
				release()
				if !w.Wait("q.c07.test.", 1, grace) {
					return hx.Failf("C07/harness", "query not sent")
				}
				fc.WaitReaderIdle(grace)
				time.Sleep(2 * time.Millisecond)
				dl, _ := fc.ReadDeadline()
				last := fc.LastWriteAt()
				if dl.IsZero() || dl.Sub(last) > 60*time.Second {
					return hx.Failf("C07/liveness-deadline-too-far", "datagram=%v used=%v: one query is outstanding and the server is silent; the reader's idle deadline was applied after the caller's waiting-reply deadline and the deadline in force is now %v after the last send", dg, used, dl.Sub(last).Round(time.Second))
				}
				fc.FireReadDeadline()
				select {
				case err := <-d2:
					if err == nil {
						return hx.Failf("C07/harness", "silent server but the call succeeded")
					}
				case <-time.After(grace):
					return hx.Failf("C07/call-does-not-return", "the read deadline fired but the waiting call did not return")
				}
				ctx.Nontrivial(fmt.Sprintf("ordering|%v|%v", dg, used))
				ctx.Sample(map[string]any{"datagram": dg, "used_connection": used, "deadline_after_last_send": dl.Sub(last).String()})
				return nil
			})
		}
	}
}

func newConn(dg bool, idle time.Duration, fc *fakenet.Conn) *transport.TraditionalDnsConn {
	max := 64
	if dg {
		max = 4096
	}
	return transport.NewDnsConn(transport.TraditionalDnsConnOpts{WithLengthHeader: !dg, IdleTimeout: idle, MaxConcurrentQuery: max}, fc)
}

// A silent server on a datagram connection: the query is retransmitted every second, but that must not push the
// liveness deadline further out each time - otherwise an exchange with an unbounded context never returns. Real time:
// 2.4 s (two retransmissions). Oracle: the read deadline in force after the retransmissions is not later than the one
// in force before them (nothing but retransmissions happened in between), and firing it ends the exchange.
func TestSilentDatagramServer(t *testing.T) {
	man := hx.NewManual(t, true, "datagram connection, silent server, unbounded context, 2.4 s real time: retransmissions must not move the liveness deadline")
	man.Case(map[string]any{"datagram": true, "retransmissions": 2}, func(ctx *hx.Ctx) *hx.Failure {
		w := peer.NewWatcher()
		fc := fakenet.New(true)
		w.Install(0, fc)
		dc := newConn(true, 5*time.Minute, fc)
		defer dc.Close()
		rx, _ := dc.ReserveNewQuery()
		if rx == nil {
			return hx.Failf("C07/harness", "no capacity")
		}
		done := make(chan error, 1)
		go func() { _, err := rx.ExchangeReserved(context.Background(), peer.Query(9, "silent.c07.test.", 16)); done <- err }()
		if !w.Wait("silent.c07.test.", 1, grace) {
			return hx.Failf("C07/harness", "query not sent")
		}
		fc.WaitReaderIdle(grace)
		time.Sleep(300 * time.Millisecond)
		before, _ := fc.ReadDeadline()
		first := fc.LastWriteAt()
		if before.IsZero() || before.Sub(first) > 60*time.Second {
			return hx.Failf("C07/liveness-deadline-too-far", "datagram connection, one query outstanding, silent server: the deadline in force is %v after the send", before.Sub(first).Round(time.Second))
		}
		time.Sleep(2100 * time.Millisecond)
		sent := len(w.Seen("silent.c07.test."))
		after, _ := fc.ReadDeadline()
		if sent < 2 {
			ctx.Class("inconclusive:no-retransmission-seen")
		} else if after.Sub(before) > 200*time.Millisecond {
			return hx.Failf("C07/liveness-deadline-moves-with-retransmissions", "datagram connection, silent server: after %d transmissions of the query the liveness deadline has moved %v further out (from %v to %v after the first send); with one retransmission per second an exchange with an unbounded context never ends", sent, after.Sub(before).Round(time.Millisecond), before.Sub(first).Round(time.Millisecond), after.Sub(first).Round(time.Millisecond))
		}
		fc.FireReadDeadline()
		select {
		case err := <-done:
			if err == nil {
				return hx.Failf("C07/harness", "silent server but the call succeeded")
			}
		case <-time.After(5 * time.Second):
			return hx.Failf("C07/hang", "datagram connection, silent server: the liveness deadline passed but the exchange with an unbounded context did not return")
		}
		ctx.Nontrivial("silent-datagram-a")
		ctx.Nontrivial("silent-datagram-b")
		ctx.Sample(map[string]any{"transmissions": sent, "deadline_after_first_send_ms": before.Sub(first).Milliseconds()})
		return nil
	})
}

// The same ordering question for the non-pipelined transport: the read loop's idle deadline
// must not replace the wait-reply deadline of the next exchange on the same connection.
// The read loop's SetReadDeadline is held; an implementation that hands the reply over
// before setting the idle deadline lets the next exchange start meanwhile.
func TestDeadlineOrderingReuse(t *testing.T) {
	man := hx.NewManual(t, true, "ReuseConnTransport with idle timeout 5 min: read loop's idle deadline held while the next exchange starts on the same connection")
	man.Case("reuse-deadline-ordering", func(ctx *hx.Ctx) *hx.Failure {
		w := peer.NewWatcher()
		env := tx.NewEnv(false)
		env.OnDial = func(cn int, fc *fakenet.Conn) error { w.Install(cn, fc); return nil }
		eng, err := tx.NewEngine("reuse", env, tx.Opt{IdleTimeout: 5 * time.Minute})
		if err != nil {
			return hx.Failf("C07/harness", "%v", err)
		}
		defer eng.Close()
		ex := func(name string, id uint16) chan error {
			d := make(chan error, 1)
			go func() { _, err := eng.Exchange(context.Background(), peer.Query(id, name, 16)); d <- err }()
			return d
		}
		d1 := ex("r1.c07.test.", 1)
		if !w.Wait("r1.c07.test.", 1, grace) {
			return hx.Failf("C07/harness", "first query not sent")
		}
		fc := env.Conn(0)
		release := fc.HoldSetReadDeadline(1) // the read loop's SetReadDeadline(idle) after the reply
		w.Answer(w.Seen("r1.c07.test.")[0], 0, nil)
		// original order: the held call comes before the reply is handed over, so exchange 1 cannot return yet
		returnedEarly := false
		select {
		case err := <-d1:
			if err != nil {
				return hx.Failf("C07/harness", "first exchange failed: %v", err)
			}
			returnedEarly = true
		case <-time.After(100 * time.Millisecond):
		}
		var d2 chan error
		if returnedEarly {
			// the connection is idle again while the read loop has not applied its idle deadline yet
			d2 = ex("r2.c07.test.", 2)
			if !w.Wait("r2.c07.test.", 1, grace) {
				return hx.Failf("C07/harness", "second query not sent")
			}
			time.Sleep(2 * time.Millisecond)
		}
		release()
		if !returnedEarly {
			if err := <-d1; err != nil {
				return hx.Failf("C07/harness", "first exchange failed: %v", err)
			}
			d2 = ex("r2.c07.test.", 2)
			if !w.Wait("r2.c07.test.", 1, grace) {
				return hx.Failf("C07/harness", "second query not sent")
			}
		}
		sc := w.Seen("r2.c07.test.")[0].Conn
		fc2 := env.Conn(sc)
		fc2.WaitReaderIdle(grace)
		time.Sleep(2 * time.Millisecond)
		dl, _ := fc2.ReadDeadline()
		last := fc2.LastWriteAt()
		if dl.IsZero() || dl.Sub(last) > 60*time.Second {
			return hx.Failf("C07/liveness-deadline-too-far", "reuse transport, idle timeout 5 min: a query is waiting on connection %d and the server is silent; the deadline in force is %v after the send (the read loop's idle deadline replaced the wait-reply deadline)", sc, dl.Sub(last).Round(time.Second))
		}
		// fire it; the transport may retry the query on a fresh connection, whose deadline is fired as well
		ended := false
		for round := 0; round < 6 && !ended; round++ {
			seen := w.Seen("r2.c07.test.")
			cfc := env.Conn(seen[len(seen)-1].Conn)
			cfc.WaitReaderIdle(grace)
			time.Sleep(time.Millisecond)
			cfc.FireReadDeadline()
			select {
			case err := <-d2:
				if err == nil {
					return hx.Failf("C07/harness", "silent server but the call succeeded")
				}
				ended = true
			case <-time.After(300 * time.Millisecond):
			}
		}
		if !ended {
			return hx.Failf("C07/call-does-not-return", "read deadlines fired on every connection that carried the query, but the waiting call did not return")
		}
		ctx.Nontrivial("reuse-ordering-a")
		ctx.Nontrivial("reuse-ordering-b")
		ctx.Sample(map[string]any{"second_exchange_started_while_idle_deadline_pending": returnedEarly, "deadline_after_send": dl.Sub(last).String()})
		return nil
	})
}
