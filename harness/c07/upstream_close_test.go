package c07

// Close of real upstreams (pkg/upstream.NewUpstream) over loopback sockets: after Close every socket the upstream
// opened is closed and every goroutine it started has ended. The wrappers in pkg/upstream (udp with TCP fallback,
// TLS dialers) are only reachable this way; the transports themselves are covered on scripted connections.

import (
	"context"
	"crypto/tls"
	"encoding/binary"
	"fmt"
	"io"
	"net"
	"strings"
	"sync"
	"testing"
	"time"

	"github.com/IrineSistiana/mosdns/v5/pkg/upstream"
	"github.com/IrineSistiana/mosdns/v5/pkg/utils"
	"github.com/miekg/dns"
	"pgregory.net/rapid"

	"verif/harness/hx"
	"verif/harness/peer"
	"verif/harness/quiesce"
)

type UpCloseCase struct {
	Scheme    string `json:"scheme"`    // udp | tcp | tcp+pipeline | tls | tls+pipeline
	Exchanges int    `json:"exchanges"` // sequential exchanges before Close
	Truncate  bool   `json:"truncate"`  // udp: replies carry TC, so the TCP side of the upstream is used as well
	Parallel  bool   `json:"parallel"`  // run the exchanges concurrently (more than one connection for non-pipelined schemes)
}

func genUpClose(t *rapid.T) UpCloseCase {
	c := UpCloseCase{
		Scheme:    rapid.SampledFrom([]string{"udp", "udp", "tcp", "tcp+pipeline", "tls", "tls+pipeline"}).Draw(t, "scheme"),
		Exchanges: rapid.IntRange(1, 4).Draw(t, "n"),
		Parallel:  rapid.Bool().Draw(t, "parallel"),
	}
	if c.Scheme == "udp" {
		c.Truncate = rapid.Bool().Draw(t, "tc")
	}
	return c
}

type loopSrv struct {
	udp  *net.UDPConn
	tcp  net.Listener
	port int
	mu   sync.Mutex
	open map[net.Conn]bool // accepted stream connections the client has not closed yet
	tc   bool
}

var (
	upCert     tls.Certificate
	upCertOnce sync.Once
	upCertErr  error
)

func newLoopSrv(useTLS, tc bool) (*loopSrv, error) {
	for try := 0; try < 20; try++ {
		u, err := net.ListenUDP("udp", &net.UDPAddr{IP: net.IPv4(127, 0, 0, 1)})
		if err != nil {
			return nil, err
		}
		port := u.LocalAddr().(*net.UDPAddr).Port
		var l net.Listener
		if useTLS {
			upCertOnce.Do(func() { upCert, upCertErr = utils.GenerateCertificate("c07.test") })
			if upCertErr != nil {
				u.Close()
				return nil, upCertErr
			}
			l, err = tls.Listen("tcp", fmt.Sprintf("127.0.0.1:%d", port), &tls.Config{Certificates: []tls.Certificate{upCert}})
		} else {
			l, err = net.Listen("tcp", fmt.Sprintf("127.0.0.1:%d", port))
		}
		if err != nil {
			u.Close()
			continue
		}
		s := &loopSrv{udp: u, tcp: l, port: port, open: map[net.Conn]bool{}, tc: tc}
		go s.serveUDP()
		go s.serveTCP()
		return s, nil
	}
	return nil, fmt.Errorf("no port free for both udp and tcp")
}

func reply(q []byte, tc bool) []byte {
	m := new(dns.Msg)
	if m.Unpack(q) != nil {
		return nil
	}
	r := new(dns.Msg)
	r.SetReply(m)
	r.Truncated = tc
	r.Answer = []dns.RR{&dns.TXT{Hdr: dns.RR_Header{Name: m.Question[0].Name, Rrtype: dns.TypeTXT, Class: dns.ClassINET, Ttl: 60}, Txt: []string{"ok"}}}
	w, _ := r.Pack()
	return w
}

func (s *loopSrv) serveUDP() {
	buf := make([]byte, 65535)
	for {
		n, from, err := s.udp.ReadFromUDP(buf)
		if err != nil {
			return
		}
		if r := reply(buf[:n], s.tc); r != nil {
			s.udp.WriteToUDP(r, from)
		}
	}
}

func (s *loopSrv) serveTCP() {
	for {
		c, err := s.tcp.Accept()
		if err != nil {
			return
		}
		s.mu.Lock()
		s.open[c] = true
		s.mu.Unlock()
		go func() {
			defer func() {
				s.mu.Lock()
				delete(s.open, c)
				s.mu.Unlock()
				c.Close()
			}()
			for {
				hdr := make([]byte, 2)
				if _, err := io.ReadFull(c, hdr); err != nil {
					return // EOF: the client closed the connection
				}
				b := make([]byte, binary.BigEndian.Uint16(hdr))
				if _, err := io.ReadFull(c, b); err != nil {
					return
				}
				r := reply(b, false)
				if r == nil {
					return
				}
				c.Write(append(binary.BigEndian.AppendUint16(nil, uint16(len(r))), r...))
			}
		}()
	}
}

func (s *loopSrv) openConns() int {
	s.mu.Lock()
	defer s.mu.Unlock()
	return len(s.open)
}

func (s *loopSrv) Close() { s.udp.Close(); s.tcp.Close() }

// goroutines that run mosdns upstream code
func upstreamGoroutines() map[string]quiesce.G {
	out := map[string]quiesce.G{}
	for _, g := range quiesce.Dump() {
		if strings.Contains(g.Stack, "mosdns/v5/pkg/upstream") {
			out[g.ID] = g
		}
	}
	return out
}

func runUpClose(c UpCloseCase, ctx *hx.Ctx) *hx.Failure {
	srv, err := newLoopSrv(strings.HasPrefix(c.Scheme, "tls"), c.Truncate)
	if err != nil {
		ctx.Class("skipped:no-loopback-server")
		return nil
	}
	defer srv.Close()
	before := upstreamGoroutines()
	u, err := upstream.NewUpstream(fmt.Sprintf("%s://127.0.0.1:%d", c.Scheme, srv.port), upstream.Opt{TLSConfig: &tls.Config{InsecureSkipVerify: true}})
	if err != nil {
		return hx.Failf("C07/harness", "NewUpstream: %v", err)
	}
	errs := make([]error, c.Exchanges)
	one := func(i int) {
		cx, cancel := context.WithTimeout(context.Background(), 10*time.Second)
		defer cancel()
		_, errs[i] = u.ExchangeContext(cx, peer.Query(uint16(i+1), fmt.Sprintf("x%d.c07.test.", i), 16))
	}
	if c.Parallel {
		var wg sync.WaitGroup
		for i := 0; i < c.Exchanges; i++ {
			wg.Add(1)
			go func(i int) { defer wg.Done(); one(i) }(i)
		}
		wg.Wait()
	} else {
		for i := 0; i < c.Exchanges; i++ {
			one(i)
		}
	}
	for i, e := range errs {
		if e != nil {
			u.Close()
			if e == context.DeadlineExceeded {
				ctx.Class("inconclusive:loopback-exchange-timeout")
				return nil
			}
			return hx.Failf("C07/harness", "exchange %d over %s against a healthy loopback server failed: %v", i, c.Scheme, e)
		}
	}
	usedTCP := srv.openConns()
	u.Close()
	// every stream connection the upstream opened is closed (the server sees EOF) ...
	deadline := time.Now().Add(5 * time.Second)
	for srv.openConns() > 0 && time.Now().Before(deadline) {
		time.Sleep(2 * time.Millisecond)
	}
	if n := srv.openConns(); n > 0 {
		return hx.Failf("C07/connection-leak-after-close", "%s upstream, %d exchange(s), truncate=%v: %d stream connection(s) to the server are still open 5 s after Close", c.Scheme, c.Exchanges, c.Truncate, n)
	}
	// ... and every goroutine it started has ended (a reader still parked on a socket means the socket was not closed)
	var left []quiesce.G
	for time.Now().Before(deadline.Add(time.Second)) {
		left = left[:0]
		for id, g := range upstreamGoroutines() {
			if _, old := before[id]; !old {
				left = append(left, g)
			}
		}
		if len(left) == 0 {
			break
		}
		time.Sleep(5 * time.Millisecond)
	}
	if len(left) > 0 {
		return hx.Failf("C07/goroutine-leak", "%s upstream, %d exchange(s), truncate=%v: %d goroutine(s) of the upstream are still there after Close, e.g.\n%s", c.Scheme, c.Exchanges, c.Truncate, len(left), left[0].Stack)
	}
	ctx.Classf("upstream=%s", c.Scheme)
	if usedTCP > 0 || c.Scheme == "udp" {
		ctx.Nontrivial(fmt.Sprintf("%v", c))
	}
	ctx.Sample(c)
	return nil
}

func TestPropUpstreamClose(t *testing.T) { hx.Check(t, 300, genUpClose, runUpClose) }
