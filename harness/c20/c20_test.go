// C20 — fallback prefers the primary and fails over only when it should.
package c20

import (
	"context"
	"errors"
	"fmt"
	"sync"
	"sync/atomic"
	"testing"
	"time"

	"github.com/IrineSistiana/mosdns/v5/coremain"
	"github.com/IrineSistiana/mosdns/v5/pkg/query_context"
	"github.com/IrineSistiana/mosdns/v5/pkg/verifhook"
	"github.com/IrineSistiana/mosdns/v5/plugin/executable/sequence"
	"github.com/IrineSistiana/mosdns/v5/plugin/executable/sequence/fallback"
	"github.com/miekg/dns"
	"pgregory.net/rapid"

	"verif/harness/hx"
	"verif/harness/quiesce"
)

func TestMain(m *testing.M) { hx.Main(m) }

type Case struct {
	P         string `json:"primary"`            // answer | noanswer | error | answer+error (leaves a response and returns an error: a failure)
	S         string `json:"secondary"`          // answer | noanswer | error | answer+error
	Deadline  int    `json:"caller_deadline_ms"` // 0 = the caller's context has no deadline; otherwise that far ahead
	Standby   bool   `json:"always_standby"`
	Threshold string `json:"threshold"` // never (1 h) | elapsed (1 ms) | finite (200 ms, primary answers at once: see finiteThreshold)
	Order     string `json:"order"`     // p_first | s_first | together | p_only (secondary is never released)
	Pause     bool   `json:"pause"`     // hold the primary between signalling 'done' and queueing its answer
	Cancel    string `json:"cancel"`    // none | before | after_first
	Prelude   int    `json:"prelude"`   // earlier calls (threshold 1 ms, primary fails at once, secondary answers after 3 ms) whose threshold timer expires unobserved: history for pooled state
}

func genCase(t *rapid.T) Case {
	c := Case{
		P:         rapid.SampledFrom([]string{"answer", "answer", "answer", "noanswer", "error", "answer+error"}).Draw(t, "p"),
		S:         rapid.SampledFrom([]string{"answer", "answer", "answer", "noanswer", "error", "answer+error"}).Draw(t, "s"),
		Deadline:  rapid.SampledFrom([]int{0, 0, 8000, 60000}).Draw(t, "deadline"),
		Standby:   rapid.Bool().Draw(t, "standby"),
		Threshold: rapid.SampledFrom([]string{"never", "never", "elapsed"}).Draw(t, "threshold"),
		Order:     rapid.SampledFrom([]string{"p_first", "s_first", "together", "p_only"}).Draw(t, "order"),
		Cancel:    rapid.SampledFrom([]string{"none", "none", "none", "before", "after_first"}).Draw(t, "cancel"),
	}
	if rapid.IntRange(0, 19).Draw(t, "finite") == 7 {
		// timed scenario, 250 ms per case
		return Case{P: "answer", S: c.S, Standby: false, Threshold: "finite", Order: "p_first", Cancel: "none"}
	}
	if rapid.IntRange(0, 3).Draw(t, "hasPrelude") == 0 {
		c.Prelude = rapid.IntRange(1, 3).Draw(t, "prelude")
	}
	if c.Standby && c.Threshold == "never" && c.P == "answer" && c.Cancel == "none" {
		c.Pause = rapid.Bool().Draw(t, "pause")
	}
	return c
}

type gated struct {
	name    string
	outcome string
	gate    chan struct{}
	started atomic.Bool
	ended   atomic.Bool
	dl      atomic.Int64 // deadline of the context the plugin was run with (unix nanoseconds, 0 = none)
}

var errScripted = errors.New("scripted failure")

func (g *gated) Exec(ctx context.Context, q *query_context.Context) error {
	if d, ok := ctx.Deadline(); ok {
		g.dl.Store(d.UnixNano())
	}
	g.started.Store(true)
	defer g.ended.Store(true)
	select {
	case <-g.gate:
	case <-ctx.Done():
		return context.Cause(ctx)
	}
	switch g.outcome {
	case "answer":
		r := new(dns.Msg)
		r.SetReply(q.Q())
		r.Answer = []dns.RR{&dns.TXT{Hdr: dns.RR_Header{Name: q.Q().Question[0].Name, Rrtype: dns.TypeTXT, Class: dns.ClassINET, Ttl: 60}, Txt: []string{"from-" + g.name}}}
		q.SetResponse(r)
	case "answer+error":
		r := new(dns.Msg)
		r.SetReply(q.Q())
		r.Answer = []dns.RR{&dns.TXT{Hdr: dns.RR_Header{Name: q.Q().Question[0].Name, Rrtype: dns.TypeTXT, Class: dns.ClassINET, Ttl: 60}, Txt: []string{"failed-" + g.name}}}
		q.SetResponse(r)
		return errScripted
	case "error":
		return errScripted
	}
	return nil
}

func waitFor(d time.Duration, f func() bool) bool {
	deadline := time.Now().Add(d)
	for !f() {
		if time.Now().After(deadline) {
			return false
		}
		time.Sleep(100 * time.Microsecond)
	}
	return true
}

// prelude runs one complete earlier call: the primary fails at once, the secondary answers after the 1 ms threshold
// has passed, so the call's threshold timer fires without anybody receiving from it.
func prelude() *hx.Failure {
	p := &gated{name: "primary", outcome: "error", gate: make(chan struct{})}
	s := &gated{name: "secondary", outcome: "answer", gate: make(chan struct{})}
	close(p.gate)
	m := coremain.NewTestMosdnsWithPlugins(map[string]any{"p": sequence.Executable(p), "s": sequence.Executable(s)})
	fb, err := fallback.Init(coremain.NewBP("fb", m), &fallback.Args{Primary: "p", Secondary: "s", Threshold: 1, AlwaysStandby: false})
	if err != nil {
		return hx.Failf("C20/harness", "init: %v", err)
	}
	q := new(dns.Msg)
	q.SetQuestion("prelude.c20.test.", dns.TypeA)
	qCtx := query_context.NewContext(q)
	go func() { time.Sleep(3 * time.Millisecond); close(s.gate) }()
	cx, cancel := context.WithTimeout(context.Background(), 10*time.Second)
	defer cancel()
	if err := fb.(sequence.Executable).Exec(cx, qCtx); err != nil {
		return hx.Failf("C20/expected-answer", "earlier call: the primary failed, the secondary answered, Exec returned %v", err)
	}
	if r := qCtx.R(); r == nil || len(r.Answer) != 1 || r.Answer[0].(*dns.TXT).Txt[0] != "from-secondary" {
		return hx.Failf("C20/wrong-winner", "earlier call: the primary failed, the secondary answered, Exec left %v", r)
	}
	quiesce.WaitGone("fallback.(*fallback).doFallback", 5*time.Second)
	return nil
}

// finiteThreshold: always_standby off, threshold 200 ms, the primary answers at once. Its answer must be returned and
// the secondary must not be started, neither before nor after the threshold has passed (the primary was in time).
// The verdict is taken only if the primary was measured to have finished within 20 ms of the start of the call.
func finiteThreshold(c Case, ctx *hx.Ctx) *hx.Failure {
	p := &gated{name: "primary", outcome: "answer", gate: make(chan struct{})}
	s := &gated{name: "secondary", outcome: c.S, gate: make(chan struct{})}
	close(p.gate)
	close(s.gate)
	m := coremain.NewTestMosdnsWithPlugins(map[string]any{"p": sequence.Executable(p), "s": sequence.Executable(s)})
	fb, err := fallback.Init(coremain.NewBP("fb", m), &fallback.Args{Primary: "p", Secondary: "s", Threshold: 200, AlwaysStandby: false})
	if err != nil {
		return hx.Failf("C20/harness", "init: %v", err)
	}
	q := new(dns.Msg)
	q.SetQuestion("q.c20.test.", dns.TypeA)
	qCtx := query_context.NewContext(q)
	start := time.Now()
	e := execBounded(fb.(sequence.Executable), qCtx)
	took := time.Since(start)
	if errors.Is(e, errHang) {
		return hx.Failf("C20/hang", "threshold 200 ms, primary answers at once: Exec did not return within 10 s")
	}
	if e != nil {
		return hx.Failf("C20/expected-answer", "threshold 200 ms, primary answers at once: %v", e)
	}
	got := ""
	if r := qCtx.R(); r != nil && len(r.Answer) == 1 {
		got = r.Answer[0].(*dns.TXT).Txt[0]
	}
	time.Sleep(time.Until(start.Add(260 * time.Millisecond)))
	started := s.started.Load()
	quiesce.WaitGone("fallback.(*fallback).doFallback", 5*time.Second)
	if took > 20*time.Millisecond {
		ctx.Class("inconclusive:timing")
		return nil
	}
	if got != "from-primary" {
		return hx.Failf("C20/wrong-winner", "threshold 200 ms, the primary answered after %v: Exec returned %q", took, got)
	}
	if started {
		return hx.Failf("C20/secondary-started-although-primary-in-time", "always_standby off, threshold 200 ms: the primary answered after %v, yet the secondary was started (by 260 ms after the start of the call)", took)
	}
	ctx.Class("threshold=finite")
	ctx.Nontrivial(fmt.Sprintf("%v", c))
	ctx.Sample(map[string]any{"case": c, "result": got, "primary_took_us": took.Microseconds()})
	return nil
}

func runCase(c Case, ctx *hx.Ctx) *hx.Failure {
	if c.Threshold == "finite" {
		return finiteThreshold(c, ctx)
	}
	for i := 0; i < c.Prelude; i++ {
		if f := prelude(); f != nil {
			return f
		}
	}
	if c.Prelude > 0 {
		ctx.Class("history:earlier-call-with-unobserved-threshold-timer")
	}
	p := &gated{name: "primary", outcome: c.P, gate: make(chan struct{})}
	s := &gated{name: "secondary", outcome: c.S, gate: make(chan struct{})}
	m := coremain.NewTestMosdnsWithPlugins(map[string]any{"p": sequence.Executable(p), "s": sequence.Executable(s)})
	th := 3600 * 1000
	if c.Threshold == "elapsed" {
		th = 1
	}
	fb, err := fallback.Init(coremain.NewBP("fb", m), &fallback.Args{Primary: "p", Secondary: "s", Threshold: th, AlwaysStandby: c.Standby})
	if err != nil {
		return hx.Failf("C20/harness", "init: %v", err)
	}
	hold := make(chan struct{})
	reached := make(chan struct{}, 1)
	if c.Pause {
		verifhook.Set("fallback.primary.signalled", func() {
			select {
			case reached <- struct{}{}:
			default:
			}
			<-hold
		})
		defer verifhook.Set("fallback.primary.signalled", nil)
	}
	q := new(dns.Msg)
	q.SetQuestion("q.c20.test.", dns.TypeA)
	qCtx := query_context.NewContext(q)
	cctx, cancel := context.WithCancel(context.Background())
	defer cancel()
	var callerDl time.Time
	if c.Deadline > 0 {
		callerDl = time.Now().Add(time.Duration(c.Deadline) * time.Millisecond)
		var cancelDl context.CancelFunc
		cctx, cancelDl = context.WithDeadline(cctx, callerDl)
		defer cancelDl()
	}
	// a worker must be allowed to run as long as the caller is prepared to wait: its context must not end earlier
	// than the caller's (a primary that answers within the threshold would otherwise be cut off)
	workerDeadlines := func() *hx.Failure {
		if callerDl.IsZero() {
			return nil
		}
		for _, g := range []*gated{p, s} {
			if d := g.dl.Load(); g.started.Load() && d != 0 && time.Unix(0, d).Before(callerDl.Add(-100*time.Millisecond)) {
				return hx.Failf("C20/worker-cut-off-before-callers-deadline", "the caller's context ends in %d ms, but the %s was run with a context that ends %v earlier", c.Deadline, g.name, callerDl.Sub(time.Unix(0, d)).Round(time.Millisecond))
			}
		}
		return nil
	}
	done := make(chan error, 1)
	go func() { done <- fb.(sequence.Executable).Exec(cctx, qCtx) }()
	returned := false
	var execErr error
	poll := func(d time.Duration) bool {
		if returned {
			return true
		}
		select {
		case execErr = <-done:
			returned = true
		case <-time.After(d):
		}
		return returned
	}
	result := func() string {
		if execErr != nil {
			return "error"
		}
		r := qCtx.R()
		if r == nil || len(r.Answer) != 1 {
			return "noreply"
		}
		return r.Answer[0].(*dns.TXT).Txt[0]
	}
	release := func(g *gated) {
		select {
		case <-g.gate:
		default:
			close(g.gate)
		}
	}
	finish := func() {
		cancel()
		select {
		case <-p.gate:
		default:
			close(p.gate)
		}
		select {
		case <-s.gate:
		default:
			close(s.gate)
		}
	}
	defer func() {
		select {
		case <-hold:
		default:
			close(hold)
		}
		finish()
		// no worker goroutine of this case may leak into the next one (it could hit the schedule point there)
		quiesce.WaitGone("fallback.(*fallback).doFallback", 5*time.Second)
	}()

	if !waitFor(5*time.Second, p.started.Load) {
		return hx.Failf("C20/primary-not-started", "the primary was not started")
	}
	// secondary start discipline
	if c.Standby {
		if !waitFor(5*time.Second, s.started.Load) {
			return hx.Failf("C20/standby-not-started", "always_standby is on but the secondary was not started")
		}
	} else if c.Threshold == "never" {
		time.Sleep(300 * time.Microsecond)
		if s.started.Load() {
			return hx.Failf("C20/secondary-started-early", "always_standby is off, the primary is pending and the threshold (1 h) has not passed, but the secondary was started")
		}
	} else {
		// threshold 1 ms: the secondary must start although the primary is still pending
		if !waitFor(5*time.Second, s.started.Load) {
			return hx.Failf("C20/secondary-not-started-after-threshold", "the primary is pending for longer than the threshold (1 ms) but the secondary was not started within 5 s")
		}
	}
	if c.Cancel == "before" {
		cancel()
		if !poll(5 * time.Second) {
			return hx.Failf("C20/outlives-context", "context cancelled, Exec did not return within 5 s")
		}
		if execErr == nil {
			return hx.Failf("C20/reply-after-cancel", "context cancelled before anything finished, Exec returned %s", result())
		}
		ctx.Class("cancel-before")
		ctx.Sample(c)
		return nil
	}

	pGood, sGood := c.P == "answer", c.S == "answer"
	var want []string // allowed results
	switch c.Order {
	case "p_first", "p_only":
		release(p)
		if c.Pause {
			// standby, threshold 1 h, both... the secondary may not even be released: the primary's answer is the only allowed result
			select {
			case <-reached:
			case <-time.After(5 * time.Second):
				return hx.Failf("C20/harness", "schedule point not reached")
			}
		}
		if pGood {
			want = []string{"from-primary"}
		}
	case "s_first":
		release(s)
		if !waitFor(5*time.Second, func() bool { return !s.started.Load() || s.ended.Load() }) {
			return hx.Failf("C20/harness", "secondary did not finish")
		}
		if c.Threshold == "never" {
			// a finished standby secondary must wait: nothing may be returned while the primary is pending
			if s.started.Load() {
				if poll(2 * time.Millisecond) {
					return hx.Failf("C20/secondary-used-while-primary-pending", "threshold 1 h, primary still pending: Exec returned %s (err=%v) as soon as the secondary finished", result(), execErr)
				}
			}
		} else if sGood && s.started.Load() {
			// threshold elapsed: the secondary's answer is released once the timer fires; the primary is still held
			if !poll(5 * time.Second) {
				return hx.Failf("C20/no-failover-after-threshold", "the primary is slower than the threshold and the secondary has answered, but Exec did not return within 5 s")
			}
			want = []string{"from-secondary"}
		}
		if !returned {
			release(p)
			if c.Pause {
				select {
				case <-reached:
				case <-time.After(5 * time.Second):
					return hx.Failf("C20/harness", "schedule point not reached")
				}
			}
			if pGood {
				want = []string{"from-primary"}
			} else if sGood {
				want = []string{"from-secondary"}
			}
		}
	case "together":
		release(p)
		release(s)
		switch {
		case pGood && (c.Threshold == "never" || !sGood):
			want = []string{"from-primary"}
		case pGood && sGood:
			want = []string{"from-primary", "from-secondary"}
		case sGood:
			want = []string{"from-secondary"}
		}
	}
	if c.Pause && !returned {
		// the primary succeeded in time and is paused right after signalling 'done': nothing but its answer may be returned
		if c.Order != "s_first" && c.Order != "p_only" {
			release(s)
		}
		if c.Order != "p_only" {
			waitFor(2*time.Second, s.ended.Load)
		}
		if poll(30 * time.Millisecond) {
			select {
			case <-hold:
			default:
				close(hold)
			}
			return hx.Failf("C20/secondary-answer-used-although-primary-succeeded", "always_standby, threshold 1 h: the primary produced an answer and signalled 'done'; before its answer was queued Exec returned %s (err=%v)", result(), execErr)
		}
		select {
		case <-hold:
		default:
			close(hold)
		}
	}
	if c.Order == "p_first" && !returned {
		if pGood {
			// must return without waiting for the secondary
			if !poll(5 * time.Second) {
				return hx.Failf("C20/waits-for-secondary", "the primary answered in time but Exec did not return while the secondary was still pending")
			}
		} else {
			// primary failed: the secondary is needed now
			if !waitFor(5*time.Second, s.started.Load) {
				return hx.Failf("C20/no-failover-after-primary-failure", "the primary failed (%s) but the secondary was not started", c.P)
			}
			if c.Cancel == "after_first" {
				cancel()
				if !poll(5 * time.Second) {
					return hx.Failf("C20/outlives-context", "context cancelled, Exec did not return within 5 s")
				}
				if execErr == nil {
					return hx.Failf("C20/reply-after-cancel", "cancelled while waiting for the secondary, Exec returned %s", result())
				}
				ctx.Class("cancel-after-first")
				ctx.Sample(c)
				return nil
			}
			release(s)
			if sGood {
				want = []string{"from-secondary"}
			}
		}
	}
	if c.Order == "p_only" && !returned && !pGood {
		// the primary failed and the secondary never answers: only the context can end the call
		if !c.Standby && !waitFor(5*time.Second, s.started.Load) {
			return hx.Failf("C20/no-failover-after-primary-failure", "the primary failed (%s) but the secondary was not started", c.P)
		}
		cancel()
		if !poll(5 * time.Second) {
			return hx.Failf("C20/outlives-context", "context cancelled, Exec did not return within 5 s")
		}
		if execErr == nil {
			return hx.Failf("C20/reply-after-cancel", "nobody answered, Exec returned %s", result())
		}
		ctx.Class("ended-by-context")
		ctx.Sample(c)
		return nil
	}
	if !poll(5 * time.Second) {
		return hx.Failf("C20/hang", "both sides have finished (primary %s, secondary %s) but Exec did not return within 5 s", c.P, c.S)
	}
	got := result()
	if len(want) == 0 {
		if got != "error" {
			return hx.Failf("C20/expected-error", "primary %s, secondary %s: expected an error, Exec returned %s", c.P, c.S, got)
		}
	} else {
		ok := false
		for _, w := range want {
			if got == w {
				ok = true
			}
		}
		if !ok {
			sig := "C20/wrong-winner"
			if got == "from-secondary" && pGood && c.Threshold == "never" {
				sig = "C20/secondary-answer-used-although-primary-succeeded"
			}
			return hx.Failf(sig, "standby=%v threshold=%s order=%s primary=%s secondary=%s: Exec returned %s (err=%v), allowed: %v", c.Standby, c.Threshold, c.Order, c.P, c.S, got, execErr, want)
		}
	}
	// without standby and with the primary succeeding in time the secondary must never have been started
	if !c.Standby && c.Threshold == "never" && pGood && (c.Order == "p_first" || c.Order == "p_only") {
		time.Sleep(200 * time.Microsecond)
		if s.started.Load() {
			return hx.Failf("C20/secondary-started-early", "the primary answered within the threshold, always_standby is off, but the secondary was started")
		}
	}
	if f := workerDeadlines(); f != nil {
		return f
	}
	if c.Deadline > 0 {
		ctx.Class("caller-has-deadline")
	}
	ctx.Classf("standby=%v", c.Standby)
	ctx.Classf("threshold=%s", c.Threshold)
	ctx.Classf("order=%s", c.Order)
	if c.Pause {
		ctx.Class("paused-at-schedule-point")
	}
	if (pGood || sGood) && (c.Standby && pGood && sGood || c.Threshold == "elapsed" || c.Pause) {
		ctx.Nontrivial(fmt.Sprintf("%v", c))
	}
	ctx.Sample(map[string]any{"case": c, "result": got})
	return nil
}

var errHang = errors.New("Exec did not return")

// execBounded runs Exec with a context that never ends by itself, but gives up after 10 s.
func execBounded(e sequence.Executable, qCtx *query_context.Context) error {
	done := make(chan error, 1)
	go func() { done <- e.Exec(context.Background(), qCtx) }()
	select {
	case err := <-done:
		return err
	case <-time.After(10 * time.Second):
		return errHang
	}
}

func TestPropFallback(t *testing.T) { hx.Check(t, 3000, genCase, runCase) }

func TestReplay(t *testing.T) { hx.Replay(t, "TestPropFallback", 20, runCase) }

// hook-free stress sample: standby, primary succeeds immediately, threshold 10 s.
func TestStressStandby(t *testing.T) {
	n := 3000
	if hx.Thorough() {
		n = 100000
	}
	man := hx.NewManual(t, false, fmt.Sprintf("%d hook-free runs: always_standby, both answer at once, threshold 10 s: the primary's answer must win", n))
	man.Case("stress", func(ctx *hx.Ctx) *hx.Failure {
		bad := 0
		for i := 0; i < n; i++ {
			p := &gated{name: "primary", outcome: "answer", gate: make(chan struct{})}
			s := &gated{name: "secondary", outcome: "answer", gate: make(chan struct{})}
			close(p.gate)
			close(s.gate)
			m := coremain.NewTestMosdnsWithPlugins(map[string]any{"p": sequence.Executable(p), "s": sequence.Executable(s)})
			fb, err := fallback.Init(coremain.NewBP("fb", m), &fallback.Args{Primary: "p", Secondary: "s", Threshold: 10000, AlwaysStandby: true})
			if err != nil {
				return hx.Failf("C20/harness", "%v", err)
			}
			q := new(dns.Msg)
			q.SetQuestion("q.c20.test.", dns.TypeA)
			qCtx := query_context.NewContext(q)
			if err := execBounded(fb.(sequence.Executable), qCtx); err != nil {
				if errors.Is(err, errHang) {
					return hx.Failf("C20/hang", "hook-free stress run %d: both sides answered at once but Exec did not return within 10 s", i)
				}
				return hx.Failf("C20/expected-answer", "%v", err)
			}
			if qCtx.R().Answer[0].(*dns.TXT).Txt[0] != "from-primary" {
				bad++
			}
		}
		if bad > 0 {
			return hx.Failf("C20/secondary-answer-used-although-primary-succeeded", "hook-free stress: in %d of %d runs the secondary's answer was returned although the primary succeeded at once (threshold 10 s)", bad, n)
		}
		ctx.Nontrivial("stress-a")
		ctx.Nontrivial("stress-b")
		ctx.Sample(map[string]any{"runs": n, "secondary_wins": bad})
		return nil
	})
}

// The threshold counts from the start of the call, also for a standby secondary that
// finished early: with threshold T, a secondary that finished at s < T and a primary that
// answers at p in (T, s+T), the secondary's answer must be released at T and win.
// Real timers are involved, so the verdict is only taken when the measured times leave
// no doubt (the primary was released at least 60 ms after start+T); otherwise inconclusive.
func TestThresholdFromStart(t *testing.T) {
	man := hx.NewManual(t, false, "timed scenario: always_standby, threshold 300 ms, secondary done at 200 ms, primary done at 460..500 ms; run 6x concurrently")
	man.Case("threshold-from-start", func(ctx *hx.Ctx) *hx.Failure {
		type out struct {
			got            string
			err            error
			pReleasedAfter time.Duration
		}
		res := make(chan out, 6)
		for i := 0; i < 6; i++ {
			go func(i int) {
				p := &gated{name: "primary", outcome: "answer", gate: make(chan struct{})}
				s := &gated{name: "secondary", outcome: "answer", gate: make(chan struct{})}
				m := coremain.NewTestMosdnsWithPlugins(map[string]any{"p": sequence.Executable(p), "s": sequence.Executable(s)})
				fb, err := fallback.Init(coremain.NewBP("fb", m), &fallback.Args{Primary: "p", Secondary: "s", Threshold: 300, AlwaysStandby: true})
				if err != nil {
					res <- out{err: err}
					return
				}
				q := new(dns.Msg)
				q.SetQuestion("q.c20.test.", dns.TypeA)
				qCtx := query_context.NewContext(q)
				start := time.Now()
				var pAt atomic.Int64
				go func() { time.Sleep(200 * time.Millisecond); close(s.gate) }()
				go func() {
					time.Sleep(time.Duration(460+8*i) * time.Millisecond) // well after the threshold (300 ms), before secondary-completion + threshold (500 ms)
					pAt.Store(int64(time.Since(start)))
					close(p.gate)
				}()
				e := execBounded(fb.(sequence.Executable), qCtx)
				time.Sleep(time.Until(start.Add(650 * time.Millisecond)))
				o := out{err: e, pReleasedAfter: time.Duration(pAt.Load())}
				if e == nil && qCtx.R() != nil {
					o.got = qCtx.R().Answer[0].(*dns.TXT).Txt[0]
				}
				res <- o
			}(i)
		}
		conclusive := 0
		for i := 0; i < 6; i++ {
			o := <-res
			if errors.Is(o.err, errHang) {
				return hx.Failf("C20/hang", "timed scenario: both sides answered but Exec did not return within 10 s")
			}
			if o.err != nil {
				return hx.Failf("C20/expected-answer", "%v", o.err)
			}
			if o.got == "from-primary" {
				if o.pReleasedAfter >= 450*time.Millisecond {
					return hx.Failf("C20/threshold-not-from-start", "always_standby, threshold 300 ms: the secondary finished at 200 ms, the primary only at %v, yet the primary's answer was returned - the standby answer was not released when the threshold passed", o.pReleasedAfter.Round(time.Millisecond))
				}
				continue
			}
			conclusive++
		}
		if conclusive == 0 {
			ctx.Class("inconclusive:timing")
		}
		ctx.Nontrivial("threshold-from-start-a")
		ctx.Nontrivial("threshold-from-start-b")
		ctx.Sample(map[string]any{"runs": 6, "secondary_won_at_threshold": conclusive})
		return nil
	})
}

// Pooled threshold timers: a call whose timer expires at the very moment it is given back to the pool must not leave a
// tick behind for the next call that takes the timer. Workers alternate a "racer" call (threshold 1 ms, primary
// fails at once, the secondary runs for about the threshold, so its deferred release of the timer races with the
// expiry; 1 ms is the smallest configurable threshold) with a "probe" call (threshold 1 h, primary pending: the secondary must not be started).
type spin struct {
	name string
	d    time.Duration
}

func (s *spin) Exec(ctx context.Context, q *query_context.Context) error {
	t0 := time.Now()
	for time.Since(t0) < s.d {
	}
	r := new(dns.Msg)
	r.SetReply(q.Q())
	r.Answer = []dns.RR{&dns.TXT{Hdr: dns.RR_Header{Name: q.Q().Question[0].Name, Rrtype: dns.TypeTXT, Class: dns.ClassINET, Ttl: 60}, Txt: []string{"from-" + s.name}}}
	q.SetResponse(r)
	return nil
}

func TestStressPooledTimer(t *testing.T) {
	n := 4000
	if hx.Thorough() {
		n = 150000
	}
	man := hx.NewManual(t, false, fmt.Sprintf("8 workers x %d rounds: racer call (threshold 1 ms, secondary busy for 0.96..1.04 ms, so the timer expires while it is released) then probe call (threshold 1 h, primary pending 200 us): the probe's secondary must not start", n/8))
	man.Case("pooled-timer", func(ctx *hx.Ctx) *hx.Failure {
		var early, hangs atomic.Int64
		var wg sync.WaitGroup
		for w := 0; w < 8; w++ {
			wg.Add(1)
			go func(w int) {
				defer wg.Done()
				for i := 0; i < n/8; i++ {
					d := time.Duration(960+(i*7+w*13)%80) * time.Microsecond // around the smallest configurable threshold, 1 ms
					// racer
					p := &gated{name: "primary", outcome: "error", gate: make(chan struct{})}
					close(p.gate)
					s := &spin{name: "secondary", d: d}
					m := coremain.NewTestMosdnsWithPlugins(map[string]any{"p": sequence.Executable(p), "s": sequence.Executable(s)})
					fb, err := fallback.Init(coremain.NewBP("fb", m), &fallback.Args{Primary: "p", Secondary: "s", Threshold: 1, AlwaysStandby: false})
					if err != nil {
						return
					}
					q := new(dns.Msg)
					q.SetQuestion("racer.c20.test.", dns.TypeA)
					if errors.Is(execBounded(fb.(sequence.Executable), query_context.NewContext(q)), errHang) {
						hangs.Add(1)
						return
					}
					// probe
					p2 := &gated{name: "primary", outcome: "answer", gate: make(chan struct{})}
					s2 := &gated{name: "secondary", outcome: "answer", gate: make(chan struct{})}
					close(s2.gate)
					m2 := coremain.NewTestMosdnsWithPlugins(map[string]any{"p": sequence.Executable(p2), "s": sequence.Executable(s2)})
					fb2, err := fallback.Init(coremain.NewBP("fb", m2), &fallback.Args{Primary: "p", Secondary: "s", Threshold: 3600 * 1000, AlwaysStandby: false})
					if err != nil {
						return
					}
					go func() { time.Sleep(200 * time.Microsecond); close(p2.gate) }()
					q2 := new(dns.Msg)
					q2.SetQuestion("probe.c20.test.", dns.TypeA)
					if errors.Is(execBounded(fb2.(sequence.Executable), query_context.NewContext(q2)), errHang) {
						hangs.Add(1)
						return
					}
					if s2.started.Load() {
						early.Add(1)
					}
				}
			}(w)
		}
		wg.Wait()
		if hangs.Load() > 0 {
			return hx.Failf("C20/hang", "pooled-timer stress: %d calls did not return within 10 s", hangs.Load())
		}
		if early.Load() > 0 {
			return hx.Failf("C20/secondary-started-early", "always_standby off, threshold 1 h, primary pending for 200 us and then answering: in %d of %d probe calls the secondary was started - the threshold timer taken from the pool fired at once (a tick left behind by an earlier call whose timer expired while it was released)", early.Load(), n)
		}
		ctx.Nontrivial("pooled-timer-a")
		ctx.Nontrivial("pooled-timer-b")
		ctx.Sample(map[string]any{"rounds": n, "secondary_started_early": 0})
		return nil
	})
}
