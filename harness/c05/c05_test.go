// C05 — cached answers age correctly and expire on time.
// An answer is stored through the real store path, its dump entry is aged by
// shifting all its times back by a drawn number of seconds and loaded into a
// fresh instance (no clock hook, no sleeping); the hit is judged against the
// wall-clock bracket of the call.
package c05

import (
	"context"
	"fmt"
	"sync"
	"sync/atomic"
	"testing"
	"time"

	"github.com/IrineSistiana/mosdns/v5/pkg/query_context"
	"github.com/miekg/dns"
	"pgregory.net/rapid"

	"verif/harness/cachex"
	"verif/harness/dnsgen"
	"verif/harness/hx"
)

func TestMain(m *testing.M) { hx.Main(m) }

type Case struct {
	Lazy   int    `json:"lazy_cache_ttl"` // 0 = off
	Answer []byte `json:"answer"`         // packed upstream answer (may contain an OPT)
	Age    int64  `json:"age"`            // seconds the stored entry is aged by
	Burst  int    `json:"burst"`          // concurrent queries on the aged entry
	// ReloadLazyOff: the aged entry (stored by an instance with lazy caching on, hence retained past its TTL) is loaded
	// into an instance with lazy caching off, as after a restart with a changed configuration
	ReloadLazyOff bool `json:"reload_lazy_off,omitempty"`
}

const qname = "c05.example."

func query(id uint16) *dns.Msg {
	m := new(dns.Msg)
	m.Id = id
	m.RecursionDesired = true
	m.Question = []dns.Question{{Name: qname, Qtype: dns.TypeA, Qclass: dns.ClassINET}}
	return m
}

// ---------------------------------------------------------------- generator

func genCase(t *rapid.T) Case {
	var c Case
	c.Lazy = rapid.SampledFrom([]int{0, 0, 20, 3600, 86400}).Draw(t, "lazy")
	m := new(dns.Msg)
	m.SetReply(query(1))
	m.Rcode = rapid.SampledFrom([]int{0, 0, 0, 0, 0, 0, 0, 0, 3, 3, 3, 2, 2, 2, 5, 1, 9}).Draw(t, "rcode")
	m.Truncated = rapid.IntRange(0, 14).Draw(t, "tc") == 0
	var ttls []uint32
	sec := func(name string, min, max int) []dns.RR {
		var out []dns.RR
		n := rapid.IntRange(min, max).Draw(t, name+"N")
		for i := 0; i < n; i++ {
			ttl := dnsgen.GenTTL(t, name+"Ttl")
			ttls = append(ttls, ttl)
			out = append(out, dnsgen.GenRR(t, qname, ttl, fmt.Sprintf("%s%d", name, i)))
		}
		return out
	}
	if m.Rcode == 0 && rapid.IntRange(0, 3).Draw(t, "empty") != 0 {
		m.Answer = sec("an", 1, 3)
	} else if m.Rcode != 0 && rapid.IntRange(0, 3).Draw(t, "errAns") == 0 {
		m.Answer = sec("an", 1, 2)
	}
	m.Ns = sec("ns", 0, 2)
	m.Extra = sec("ex", 0, 2)
	if rapid.IntRange(0, 3).Draw(t, "opt") == 0 {
		o := new(dns.OPT)
		o.Hdr.Name, o.Hdr.Rrtype = ".", dns.TypeOPT
		o.SetUDPSize(1232)
		if rapid.Bool().Draw(t, "optdo") {
			o.SetDo()
		}
		m.Extra = append(m.Extra, o)
	}
	w, err := m.Pack()
	if err != nil {
		t.Skip("answer does not pack")
	}
	c.Answer = w

	// age: around every boundary that matters
	life := lifetimeUpper(m, ttls)
	cands := []int64{0, 1, 2, 4, 5, 6, 29, 30, 31, 299, 300, 301}
	for _, ttl := range ttls {
		if ttl < 1<<30 {
			cands = append(cands, int64(ttl)-1, int64(ttl), int64(ttl)+1)
		}
	}
	if life > 0 && life < 1<<30 {
		cands = append(cands, life-2, life-1, life, life+1, life+2)
	}
	if c.Lazy > 0 {
		cands = append(cands, int64(c.Lazy)-2, int64(c.Lazy)-1, int64(c.Lazy), int64(c.Lazy)+1, life+10)
	}
	switch rapid.IntRange(0, 3).Draw(t, "ageKind") {
	case 0:
		c.Age = int64(rapid.IntRange(0, 4000).Draw(t, "ageAny"))
	default:
		c.Age = cands[rapid.IntRange(0, len(cands)-1).Draw(t, "ageIdx")]
	}
	if c.Age < 0 {
		c.Age = 0
	}
	c.Burst = rapid.SampledFrom([]int{1, 1, 2, 8, 32}).Draw(t, "burst")
	c.ReloadLazyOff = c.Lazy > 0 && rapid.IntRange(0, 4).Draw(t, "reloadLazyOff") == 2
	return c
}

// lifetimeUpper: the statement's upper bound on how long the answer may be served fresh.
// -1: must never be stored. 0: statement silent.
func lifetimeUpper(m *dns.Msg, ttls []uint32) int64 {
	minTTL := int64(-1)
	for _, t := range ttls {
		if minTTL < 0 || int64(t) < minTTL {
			minTTL = int64(t)
		}
	}
	switch m.Rcode {
	case dns.RcodeNameError:
		return 30
	case dns.RcodeServerFailure:
		return 5
	case dns.RcodeSuccess:
		if minTTL < 0 {
			return 0
		}
		if len(m.Answer) == 0 && minTTL > 300 {
			return 300
		}
		return minTTL
	}
	return -1
}

// ---------------------------------------------------------------- runner

type rec struct {
	ttl uint32
	opt bool
}

func records(m *dns.Msg) (out []rec) {
	for _, s := range [][]dns.RR{m.Answer, m.Ns, m.Extra} {
		for _, rr := range s {
			out = append(out, rec{ttl: rr.Header().Ttl, opt: rr.Header().Rrtype == dns.TypeOPT})
		}
	}
	return
}

func runCase(c Case, ctx *hx.Ctx) *hx.Failure {
	ans := new(dns.Msg)
	if err := ans.Unpack(c.Answer); err != nil {
		return nil
	}
	var ttls []uint32
	for _, r := range records(ans) {
		if !r.opt {
			ttls = append(ttls, r.ttl)
		}
	}
	minTTL := int64(-1)
	for _, t := range ttls {
		if minTTL < 0 || int64(t) < minTTL {
			minTTL = int64(t)
		}
	}
	upper := lifetimeUpper(ans, ttls)

	// 1. real store path
	a := cachex.New(1024, c.Lazy)
	defer a.Close()
	s0 := time.Now()
	qc := query_context.NewContext(query(11))
	if err := a.Exec(qc, func(_ context.Context, q *query_context.Context) error {
		r := ans.Copy()
		r.Id = q.Q().Id
		q.SetResponse(r)
		return nil
	}); err != nil {
		return hx.Failf("C05/harness", "store Exec: %v", err)
	}
	s1 := time.Now()
	d, err := a.Dump()
	if err != nil {
		return hx.Failf("C05/harness", "dump: %v", err)
	}
	es, err := cachex.DecodeDump(d)
	if err != nil {
		return hx.Failf("C05/harness", "decode dump: %v", err)
	}
	ctx.Classf("rcode=%d", ans.Rcode)
	ctx.Classf("lazy=%v", c.Lazy > 0)

	// 2. admission
	zeroTTLReply := minTTL == 0
	mustNotStore := ans.Truncated || (ans.Rcode != 0 && ans.Rcode != 2 && ans.Rcode != 3) || (ans.Rcode == 0 && zeroTTLReply)
	if len(es) == 0 {
		ctx.Class("not-stored")
		ctx.Sample(map[string]any{"answer": ans.String(), "stored": false})
		if mustNotStore {
			ctx.Nontrivial(fmt.Sprintf("nostore|%x", c.Answer))
		}
		return nil
	}
	if mustNotStore {
		why := "rcode"
		if ans.Truncated {
			why = "truncated"
		} else if ans.Rcode == 0 {
			why = "zero-ttl"
		}
		return hx.Failf("C05/stored-inadmissible-"+why, "an answer that must never be stored is in the cache (TC=%v rcode=%d smallest TTL=%d)\n%v", ans.Truncated, ans.Rcode, minTTL, ans)
	}
	if len(es) != 1 {
		return hx.Failf("C05/harness", "%d entries after one store", len(es))
	}
	e := es[0]
	if zeroTTLReply && ans.Rcode != 0 {
		// NXDOMAIN/SERVFAIL carrying a zero-TTL record: the statement can be read either way; not judged.
		ctx.Class("excluded:error-reply-with-zero-ttl-record")
		ctx.Excluded(1)
		return nil
	}

	// 3. lifetimes (dump times are whole seconds, truncated)
	msgLife := e.GetMsgExpirationTime() - s1.Unix() // lower estimate of lifetime ... upper check uses s1
	if upper > 0 && e.GetMsgExpirationTime() > s1.Unix()+upper {
		return hx.Failf("C05/lifetime-too-long", "rcode=%d answers=%d smallest TTL=%d: message expires %d s after the store, allowed at most %d s", ans.Rcode, len(ans.Answer), minTTL, e.GetMsgExpirationTime()-s1.Unix(), upper)
	}
	_ = msgLife
	// NXDOMAIN, SERVFAIL and empty NOERROR answers live at most that long - also as cache entries
	// (they are not kept for lazy serving)
	if upper > 0 && (ans.Rcode != 0 || len(ans.Answer) == 0) && e.GetCacheExpirationTime() > s1.Unix()+upper {
		return hx.Failf("C05/lifetime-too-long", "rcode=%d answers=%d smallest TTL=%d lazy_cache_ttl=%d: the entry is kept for %d s after the store, allowed at most %d s", ans.Rcode, len(ans.Answer), minTTL, c.Lazy, e.GetCacheExpirationTime()-s1.Unix(), upper)
	}
	if ans.Rcode == 0 && len(ans.Answer) > 0 {
		// NOERROR with answers lives exactly its smallest TTL
		if e.GetMsgExpirationTime() < s0.Unix()+minTTL-1 {
			ctx.Class("note:expires-before-smallest-ttl") // allowed by the statement (upper bound only)
		}
	}
	storedS := s0.Unix() // whole-second stored time we give the aged entry

	// 4. age it and load into a fresh instance
	stored := storedS - c.Age
	msgExp := e.GetMsgExpirationTime() - c.Age
	cacheExp := e.GetCacheExpirationTime() - c.Age
	aged := &cachex.Entry{Key: e.GetKey(), Msg: e.GetMsg(), MsgStoredTime: stored, MsgExpirationTime: msgExp, CacheExpirationTime: cacheExp}
	if c.ReloadLazyOff {
		c.Lazy = 0 // from here on c.Lazy is the serving instance's setting
		ctx.Class("reloaded-into-lazy-off-instance")
	}
	b := cachex.New(1024, c.Lazy)
	defer b.Close()
	if code, body := b.Load(cachex.EncodeDump([]*cachex.Entry{aged}, 128)); code != 200 {
		return hx.Failf("C05/harness", "load_dump: %d %s", code, body)
	}

	// stored message as the cache holds it (no OPT)
	storedMsg := new(dns.Msg)
	if err := storedMsg.Unpack(e.GetMsg()); err != nil {
		return hx.Failf("C05/harness", "stored msg: %v", err)
	}
	base := records(storedMsg)

	var inflight, maxInflight, bgCalls, bgDone, bgSkipped atomic.Int32
	gate := make(chan struct{})
	var gateOnce sync.Once
	openGate := func() { gateOnce.Do(func() { close(gate) }) }
	defer openGate()
	next := func(cx context.Context, q *query_context.Context) error {
		if _, bg := cx.Deadline(); bg { // background lazy refresh
			if q.R() != nil {
				// like the usual "!has_resp -> forward" rule: a refresh that starts with a response never reaches the upstream
				bgSkipped.Add(1)
				return nil
			}
			n := inflight.Add(1)
			for {
				m := maxInflight.Load()
				if n <= m || maxInflight.CompareAndSwap(m, n) {
					break
				}
			}
			bgCalls.Add(1)
			<-gate
			r := new(dns.Msg)
			r.SetReply(q.Q())
			r.Answer = []dns.RR{&dns.A{Hdr: dns.RR_Header{Name: qname, Rrtype: dns.TypeA, Class: dns.ClassINET, Ttl: 777}, A: []byte{9, 9, 9, 9}}}
			q.SetResponse(r)
			inflight.Add(-1)
			bgDone.Add(1)
			return nil
		}
		return nil
	}

	type result struct {
		r      *dns.Msg
		t0, t1 time.Time
	}
	results := make([]result, c.Burst)
	var wg sync.WaitGroup
	for i := 0; i < c.Burst; i++ {
		wg.Add(1)
		go func(i int) {
			defer wg.Done()
			qc := query_context.NewContext(query(uint16(100 + i)))
			t0 := time.Now()
			err := b.Exec(qc, next)
			t1 := time.Now()
			if err == nil {
				results[i] = result{qc.R(), t0, t1}
			}
		}(i)
	}
	if done, hang, detail := hx.WaitBounded(&wg, 30*time.Second, "c05.runCase", nil); !done {
		if hang {
			return hx.Failf("C05/query-never-returns", "a burst of concurrent queries through the cache has not finished after 30 s; stuck in the cache:\n%s", detail)
		}
		ctx.Class("inconclusive:burst-slow")
		wg.Wait()
		return nil
	}

	M, C, S := time.Unix(msgExp, 0), time.Unix(cacheExp, 0), time.Unix(stored, 0)
	nFresh, nLazy, nMiss := 0, 0, 0
	for i, res := range results {
		r := res.r
		if r == nil {
			nMiss++
			// judged only inside the lazy window: the stale answer must be served
			if c.Lazy > 0 && cacheExp-msgExp >= 3 && !res.t0.Before(M) && res.t1.Before(C.Add(-time.Second)) {
				return hx.Failf("C05/lazy-stale-not-served", "lazy caching on, entry expired %v ago and is retained for another %v, but query %d was not served", res.t0.Sub(M), C.Sub(res.t1), i)
			}
			continue
		}
		if r.Id != uint16(100+i) {
			return hx.Failf("C05/hit-id", "hit carries ID %d, query has %d", r.Id, 100+i)
		}
		got := records(r)
		if len(got) != len(base) {
			return hx.Failf("C05/served-records-differ", "served %d records, stored %d", len(got), len(base))
		}
		// lazy hit? all TTLs 5, entry expired for some instant of the bracket
		allFive := true
		for _, g := range got {
			if g.ttl != 5 {
				allFive = false
			}
		}
		expiredPossible := !res.t1.Before(M)
		freshPossible := res.t0.Before(M)
		dLo := int64(res.t0.Sub(S) / time.Second)
		dHi := int64(res.t1.Sub(S) / time.Second)
		matchFresh := false
		for dl := dLo; dl <= dHi; dl++ {
			ok := true
			for k, g := range got {
				want := int64(base[k].ttl) - dl
				if want < 1 {
					want = 1
				}
				if int64(g.ttl) != want {
					ok = false
				}
			}
			if ok {
				matchFresh = true
			}
		}
		switch {
		case freshPossible && matchFresh:
			nFresh++
		case c.Lazy > 0 && expiredPossible && allFive && len(got) > 0:
			nLazy++
		case c.Lazy > 0 && expiredPossible && len(got) == 0:
			nLazy++
		default:
			sig := "C05/ttl-arithmetic"
			if !freshPossible && !(c.Lazy > 0) {
				sig = "C05/served-after-expiry"
			} else if !freshPossible && c.Lazy > 0 {
				sig = "C05/lazy-ttl-not-5"
			}
			var gt, bt []uint32
			for k := range got {
				gt = append(gt, got[k].ttl)
				bt = append(bt, base[k].ttl)
			}
			return hx.Failf(sig, "age=%d s (stored %v ago at call start), message expiry in %v, cache expiry in %v, lazy=%d: served TTLs %v for stored TTLs %v; allowed: max(1, ttl - d) for d in [%d,%d] while fresh%s",
				c.Age, res.t0.Sub(S), M.Sub(res.t0), C.Sub(res.t0), c.Lazy, gt, bt, dLo, dHi, map[bool]string{true: ", or all 5 once expired (lazy)", false: ""}[c.Lazy > 0])
		}
	}
	if m := maxInflight.Load(); m > 1 {
		return hx.Failf("C05/concurrent-lazy-refresh", "%d background refreshes of one question in flight at once (burst of %d stale hits)", m, c.Burst)
	}
	if nLazy > 0 {
		// exactly the refreshes the hits asked for are de-duplicated: with the gate closed, all hits arrived while the first was in flight
		deadline := time.Now().Add(5 * time.Second)
		for bgCalls.Load() == 0 && bgSkipped.Load() == 0 && time.Now().Before(deadline) {
			time.Sleep(time.Millisecond)
		}
		if bgSkipped.Load() > 0 {
			return hx.Failf("C05/lazy-refresh-no-update", "the background refresh was started with the stale answer already attached to its query context: a chain that forwards only while there is no response never refreshes the entry")
		}
		if n := bgCalls.Load(); n != 1 {
			if n == 0 {
				return hx.Failf("C05/no-lazy-refresh", "%d stale hits served but no background refresh was started within 5 s", nLazy)
			}
			return hx.Failf("C05/concurrent-lazy-refresh", "%d background refreshes were started for one question while the first was still in flight", n)
		}
		// release the refresh; the entry must become fresh
		openGate() // later refreshes (triggered by the polling below) pass straight through
		updated := false
		deadline = time.Now().Add(10 * time.Second)
		for time.Now().Before(deadline) {
			qc := query_context.NewContext(query(999))
			if err := b.Exec(qc, next); err != nil {
				break
			}
			if r := qc.R(); r != nil && len(r.Answer) == 1 && r.Answer[0].Header().Ttl > 5 && r.Answer[0].Header().Ttl <= 777 {
				updated = true
				break
			}
			if m := maxInflight.Load(); m > 1 {
				return hx.Failf("C05/concurrent-lazy-refresh", "%d background refreshes in flight at once", m)
			}
			time.Sleep(2 * time.Millisecond)
		}
		if !updated && bgDone.Load() > 0 {
			return hx.Failf("C05/lazy-refresh-no-update", "background refresh finished but the entry is still stale after 10 s")
		}
		if !updated {
			ctx.Class("inconclusive:refresh-not-observed")
		}
	}

	switch {
	case nFresh > 0:
		ctx.Class("served-fresh")
	case nLazy > 0:
		ctx.Class("served-lazy")
	default:
		ctx.Class("not-served")
	}
	clamp, mixed := false, false
	for _, t := range ttls {
		if int64(t) <= c.Age {
			clamp = true
		}
		if int64(t) != minTTL {
			mixed = true
		}
	}
	nearBoundary := false
	for _, bnd := range []int64{e.GetMsgExpirationTime() - storedS, e.GetCacheExpirationTime() - storedS} {
		if d := c.Age - bnd; d >= -3 && d <= 3 {
			nearBoundary = true
		}
	}
	if nearBoundary {
		ctx.Class("age-within-3s-of-expiry")
	}
	if clamp && nFresh > 0 {
		ctx.Class("clamped-to-1")
	}
	if nearBoundary || (mixed && clamp && nFresh > 0) || (nLazy > 0 && c.Burst >= 2) {
		ctx.Nontrivial(fmt.Sprintf("%d|%x|%d|%d|%v", c.Lazy, c.Answer, c.Age, c.Burst, c.ReloadLazyOff))
	}
	ctx.Sample(map[string]any{"lazy_cache_ttl": c.Lazy, "rcode": ans.Rcode, "ttls": ttls, "age_s": c.Age, "burst": c.Burst, "fresh": nFresh, "lazy_hits": nLazy, "not_served": nMiss})
	return nil
}

func TestPropAging(t *testing.T) { hx.Check(t, 24000, genCase, runCase) }

func TestReplay(t *testing.T) { hx.Replay(t, "TestPropAging", 5, runCase) }
