// Package tx builds the real mosdns transports on top of scripted fakenet connections.
package tx

import (
	"context"
	"errors"
	"fmt"
	"sync"
	"time"

	"github.com/IrineSistiana/mosdns/v5/pkg/upstream/transport"

	"verif/harness/fakenet"
)

// Env hands out fakenet connections to the transports' dial functions.
type Env struct {
	mu    sync.Mutex
	conns []*fakenet.Conn

	Datagram bool
	// OnDial configures a fresh connection (install the scripted peer). A non-nil
	// error makes the dial fail.
	OnDial func(n int, c *fakenet.Conn) error
	// DialGate, when non-nil, makes every dial block until the channel is closed
	// (or the dial context ends).
	DialGate chan struct{}

	nextID        int
	dialStarted   int
	dialCancelled int
	dialFinished  int
	cond          *sync.Cond
}

func NewEnv(datagram bool) *Env {
	e := &Env{Datagram: datagram}
	e.cond = sync.NewCond(&e.mu)
	return e
}

// SetDialGate replaces the dial gate (nil = dials complete at once); dials already waiting keep their gate.
func (e *Env) SetDialGate(g chan struct{}) {
	e.mu.Lock()
	e.DialGate = g
	e.mu.Unlock()
}

func (e *Env) Conns() []*fakenet.Conn {
	e.mu.Lock()
	defer e.mu.Unlock()
	return append([]*fakenet.Conn(nil), e.conns...)
}

// Conn returns the connection with number i (nil if it does not exist).
func (e *Env) Conn(i int) *fakenet.Conn {
	e.mu.Lock()
	defer e.mu.Unlock()
	for _, c := range e.conns {
		if c.ID == i {
			return c
		}
	}
	return nil
}

func (e *Env) DialsStarted() int {
	e.mu.Lock()
	defer e.mu.Unlock()
	return e.dialStarted
}

// DialsFinished: dials that ran to completion (successfully or with a scripted error).
func (e *Env) DialsFinished() int {
	e.mu.Lock()
	defer e.mu.Unlock()
	return e.dialFinished
}

func (e *Env) DialsCancelled() int {
	e.mu.Lock()
	defer e.mu.Unlock()
	return e.dialCancelled
}

// WaitDials waits until n dials have started.
func (e *Env) WaitDials(n int, timeout time.Duration) bool {
	deadline := time.Now().Add(timeout)
	e.mu.Lock()
	defer e.mu.Unlock()
	for e.dialStarted < n {
		if time.Now().After(deadline) {
			return false
		}
		t := time.AfterFunc(10*time.Millisecond, func() { e.mu.Lock(); e.cond.Broadcast(); e.mu.Unlock() })
		e.cond.Wait()
		t.Stop()
	}
	return true
}

// WaitConns waits until n connections exist.
func (e *Env) WaitConns(n int, timeout time.Duration) bool {
	deadline := time.Now().Add(timeout)
	e.mu.Lock()
	defer e.mu.Unlock()
	for len(e.conns) < n {
		if time.Now().After(deadline) {
			return false
		}
		t := time.AfterFunc(10*time.Millisecond, func() { e.mu.Lock(); e.cond.Broadcast(); e.mu.Unlock() })
		e.cond.Wait()
		t.Stop()
	}
	return true
}

var ErrDial = errors.New("tx: injected dial error")

func (e *Env) Dial(ctx context.Context) (*fakenet.Conn, error) {
	e.mu.Lock()
	e.dialStarted++
	gate := e.DialGate
	e.cond.Broadcast()
	e.mu.Unlock()
	if gate != nil {
		select {
		case <-gate:
		case <-ctx.Done():
			e.mu.Lock()
			e.dialCancelled++
			e.cond.Broadcast()
			e.mu.Unlock()
			return nil, context.Cause(ctx)
		}
	}
	defer func() {
		e.mu.Lock()
		e.dialFinished++
		e.cond.Broadcast()
		e.mu.Unlock()
	}()
	c := fakenet.New(e.Datagram)
	// The connection number is assigned atomically; a failed dial gives its number back
	// only if nothing else was dialled meanwhile (numbers of successful dials stay unique).
	e.mu.Lock()
	n := e.nextID
	e.nextID++
	c.ID = n
	e.mu.Unlock()
	if e.OnDial != nil {
		if err := e.OnDial(n, c); err != nil {
			e.mu.Lock()
			if e.nextID == n+1 {
				e.nextID = n
			}
			e.mu.Unlock()
			return nil, err
		}
	}
	e.mu.Lock()
	e.conns = append(e.conns, c)
	e.cond.Broadcast()
	e.mu.Unlock()
	return c, nil
}

type Engine interface {
	Exchange(ctx context.Context, q []byte) (*[]byte, error)
	Close() error
}

type Opt struct {
	MaxCQ       int           // per-connection limit of a traditional connection (0 = default 32)
	LazyQueue   int           // queue limit while dialing (0 = default 16)
	IdleTimeout time.Duration // 0 = default
	// WrapDnsConn, if set, wraps every connection the pipeline transport dials
	// (used to order ReserveNewQuery calls of concurrent callers).
	WrapDnsConn func(transport.DnsConn) transport.DnsConn
}

// Kinds: tdc (one TraditionalDnsConn, dialled immediately), pipe (PipelineTransport over
// TraditionalDnsConn), reuse (ReuseConnTransport; stream only).
func NewEngine(kind string, env *Env, o Opt) (Engine, error) {
	topts := transport.TraditionalDnsConnOpts{WithLengthHeader: !env.Datagram, IdleTimeout: o.IdleTimeout, MaxConcurrentQuery: o.MaxCQ}
	switch kind {
	case "tdc":
		c, err := env.Dial(context.Background())
		if err != nil {
			return nil, err
		}
		return &tdcEngine{dc: transport.NewDnsConn(topts, c)}, nil
	case "pipe":
		t := transport.NewPipelineTransport(transport.PipelineOpts{
			DialContext: func(ctx context.Context) (transport.DnsConn, error) {
				c, err := env.Dial(ctx)
				if err != nil {
					return nil, err
				}
				var dc transport.DnsConn = transport.NewDnsConn(topts, c)
				if o.WrapDnsConn != nil {
					dc = o.WrapDnsConn(dc)
				}
				return dc, nil
			},
			MaxConcurrentQueryWhileDialing: o.LazyQueue,
		})
		return &pipeEngine{t}, nil
	case "reuse":
		if env.Datagram {
			return nil, fmt.Errorf("reuse transport is stream only")
		}
		t := transport.NewReuseConnTransport(transport.ReuseConnOpts{
			DialContext: func(ctx context.Context) (transport.NetConn, error) {
				c, err := env.Dial(ctx)
				if err != nil {
					return nil, err
				}
				return c, nil
			},
			IdleTimeout: o.IdleTimeout,
		})
		return &reuseEngine{t}, nil
	}
	return nil, fmt.Errorf("unknown engine %q", kind)
}

type tdcEngine struct{ dc *transport.TraditionalDnsConn }

var ErrNoCapacity = errors.New("tx: connection refused the reservation")

func (e *tdcEngine) Exchange(ctx context.Context, q []byte) (*[]byte, error) {
	rx, closed := e.dc.ReserveNewQuery()
	if rx == nil {
		if closed {
			return nil, transport.ErrTDCClosed
		}
		return nil, ErrNoCapacity
	}
	return rx.ExchangeReserved(ctx, q)
}
func (e *tdcEngine) Close() error                      { return e.dc.Close() }
func (e *tdcEngine) DC() *transport.TraditionalDnsConn { return e.dc }

// DC exposes the connection of a "tdc" engine.
func DC(e Engine) *transport.TraditionalDnsConn {
	if t, ok := e.(*tdcEngine); ok {
		return t.dc
	}
	return nil
}

type pipeEngine struct{ t *transport.PipelineTransport }

func (e *pipeEngine) Exchange(ctx context.Context, q []byte) (*[]byte, error) {
	return e.t.ExchangeContext(ctx, q)
}
func (e *pipeEngine) Close() error { return e.t.Close() }

type reuseEngine struct{ t *transport.ReuseConnTransport }

func (e *reuseEngine) Exchange(ctx context.Context, q []byte) (*[]byte, error) {
	return e.t.ExchangeContext(ctx, q)
}
func (e *reuseEngine) Close() error { return e.t.Close() }
