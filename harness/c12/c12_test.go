// C12 — domain rules match exactly the names they describe.
// Differential against a naive reference that tests every rule against the name.
package c12

import (
	"context"
	"fmt"
	"net/netip"
	"os"
	"path/filepath"
	"regexp"
	"strconv"
	"strings"
	"testing"
	"time"

	"github.com/IrineSistiana/mosdns/v5/coremain"
	"github.com/IrineSistiana/mosdns/v5/pkg/matcher/domain"
	"github.com/IrineSistiana/mosdns/v5/pkg/query_context"
	"github.com/IrineSistiana/mosdns/v5/plugin/data_provider/domain_set"
	hostsplugin "github.com/IrineSistiana/mosdns/v5/plugin/executable/hosts"
	"github.com/IrineSistiana/mosdns/v5/plugin/executable/redirect"
	"github.com/IrineSistiana/mosdns/v5/plugin/executable/sequence"
	"github.com/miekg/dns"
	"pgregory.net/rapid"

	"verif/harness/hx"
)

func TestMain(m *testing.M) { hx.Main(m) }

type Rule struct {
	Kind    string `json:"kind"`    // full | domain | keyword | regexp
	Pattern string `json:"pattern"` // as written (any case, optional trailing dot)
	Prefix  bool   `json:"prefix"`  // written with "kind:" prefix (false only if Kind == set default)
}

func (r Rule) text() string {
	if r.Prefix {
		return r.Kind + ":" + r.Pattern
	}
	return r.Pattern
}

type Case struct {
	Engine  string   `json:"engine"` // mix_add | mix_load | mix_text | domain_set | domain_set_file | hosts | hosts_file | redirect
	Default string   `json:"default"`
	Rules   []Rule   `json:"rules"`
	Names   []string `json:"names"`
}

var labelAlphabet = []string{"a", "b", "c", "ab", "ba", "abc", "a-b", "x1", "_s", "cc", "b", "a", "z", "zz", "az"}

func genLabel(t *rapid.T) string {
	var l string
	if rapid.IntRange(0, 4).Draw(t, "freshLabel") == 0 {
		// any letters/digits/hyphen/underscore, not only the dense alphabet
		l = rapid.StringMatching(`[a-z0-9_][a-z0-9_-]{0,3}`).Draw(t, "rlabel")
	} else {
		l = labelAlphabet[rapid.IntRange(0, len(labelAlphabet)-1).Draw(t, "label")]
	}
	switch rapid.IntRange(0, 7).Draw(t, "upper") {
	case 0:
		l = strings.ToUpper(l)
	case 1: // per-character case
		b := []byte(l)
		for i := range b {
			if b[i] >= 'a' && b[i] <= 'z' && rapid.Bool().Draw(t, "up") {
				b[i] -= 32
			}
		}
		l = string(b)
	}
	return l
}

func genDomain(t *rapid.T, maxLabels int) string {
	n := rapid.IntRange(1, maxLabels).Draw(t, "nlabels")
	ls := make([]string, n)
	for i := range ls {
		ls[i] = genLabel(t)
	}
	return strings.Join(ls, ".")
}

func genRegexp(t *rapid.T, allowColon bool) string {
	atoms := []string{"a", "b", "c", "ab", `\.`, ".", "a*", "b+", "[ab]", "(a|b)", ".*", "c?", `[^.]`, `[a-c]+`, "A", `\.b$`, "x1", "-"}
	if allowColon {
		atoms = append(atoms, "(?:ab)", "[[:alpha:]]")
	}
	var sb strings.Builder
	if rapid.IntRange(0, 2).Draw(t, "anchorL") == 0 {
		sb.WriteString("^")
	}
	n := rapid.IntRange(1, 5).Draw(t, "natoms")
	for i := 0; i < n; i++ {
		sb.WriteString(atoms[rapid.IntRange(0, len(atoms)-1).Draw(t, "atom")])
	}
	if rapid.IntRange(0, 2).Draw(t, "anchorR") == 0 {
		sb.WriteString("$")
	}
	s := sb.String()
	if _, err := regexp.Compile(s); err != nil {
		return "a" // e.g. "$" then "*": keep the generator sound
	}
	return s
}

func deco(t *rapid.T, s string) string { // rule-side decoration: trailing dot
	if rapid.IntRange(0, 3).Draw(t, "dot") == 0 {
		return s + "."
	}
	return s
}

func genCase(t *rapid.T) Case {
	var c Case
	c.Engine = rapid.SampledFrom([]string{"mix_add", "mix_load", "mix_text", "domain_set", "domain_set_file", "hosts", "hosts_file", "redirect"}).Draw(t, "engine")
	switch c.Engine {
	case "mix_add", "mix_load", "mix_text":
		c.Default = rapid.SampledFrom([]string{"full", "domain", "keyword", "regexp"}).Draw(t, "default")
	case "domain_set", "domain_set_file":
		c.Default = "domain"
	default:
		c.Default = "full"
	}
	n := rapid.IntRange(0, 40).Draw(t, "nrules")
	if rapid.IntRange(0, 2).Draw(t, "few") == 0 {
		n = rapid.IntRange(0, 5).Draw(t, "nfew")
	}
	var doms []string // patterns so far (for derivation)
	for i := 0; i < n; i++ {
		var r Rule
		r.Kind = rapid.SampledFrom([]string{"full", "domain", "domain", "domain", "keyword", "regexp"}).Draw(t, "kind")
		r.Prefix = true
		if r.Kind == c.Default && rapid.Bool().Draw(t, "noprefix") {
			r.Prefix = false
		}
		switch r.Kind {
		case "full", "domain":
			var d string
			k := rapid.IntRange(0, 5).Draw(t, "derive")
			switch {
			case k <= 1 && len(doms) > 0: // sub/super-domain or duplicate of an earlier rule
				base := doms[rapid.IntRange(0, len(doms)-1).Draw(t, "base")]
				switch rapid.IntRange(0, 3).Draw(t, "how") {
				case 0:
					d = base
				case 1:
					d = genLabel(t) + "." + base
				case 2:
					if i := strings.IndexByte(base, '.'); i >= 0 {
						d = base[i+1:]
					} else {
						d = base
					}
				case 3:
					d = genLabel(t) + base // glued, no dot
				}
			default:
				d = genDomain(t, 4)
			}
			if r.Kind == "domain" && rapid.IntRange(0, 11).Draw(t, "rootRule") == 5 {
				// the root: a catch-all "domain:." (a default entry of a hosts/redirect table, a match-all set)
				r.Pattern = "."
				break
			}
			doms = append(doms, d)
			r.Pattern = deco(t, d)
		case "keyword":
			k := genDomain(t, 2)
			switch rapid.IntRange(0, 5).Draw(t, "kwform") {
			case 0:
				k = "." + k
			case 1:
				if len(k) > 1 {
					k = k[1:]
				}
			case 2:
				if len(doms) > 0 {
					b := doms[rapid.IntRange(0, len(doms)-1).Draw(t, "kwbase")]
					lo := rapid.IntRange(0, len(b)-1).Draw(t, "lo")
					hi := rapid.IntRange(lo+1, len(b)).Draw(t, "hi")
					k = b[lo:hi]
				}
			}
			if strings.Trim(k, ".") == "" {
				k = "a"
			}
			k = strings.TrimRight(k, ".")
			r.Pattern = deco(t, k)
		case "regexp":
			r.Pattern = genRegexp(t, r.Prefix)
		}
		c.Rules = append(c.Rules, r)
	}
	// names
	nn := rapid.IntRange(1, 12).Draw(t, "nnames")
	for i := 0; i < nn; i++ {
		var name string
		if len(doms) > 0 && rapid.IntRange(0, 3).Draw(t, "fromRule") != 0 {
			base := doms[rapid.IntRange(0, len(doms)-1).Draw(t, "nbase")]
			switch rapid.IntRange(0, 6).Draw(t, "nhow") {
			case 0:
				name = base
			case 1:
				name = genLabel(t) + "." + base
			case 2:
				name = genLabel(t) + base // string suffix, not on a label boundary
			case 3:
				name = base + "." + genLabel(t)
			case 4:
				name = genLabel(t) + "." + genLabel(t) + "." + base
			case 5:
				if len(base) > 1 && base[1] != '.' && base[0] != '.' {
					name = base[1:] // first character dropped
				} else {
					name = base
				}
			case 6:
				if i := strings.IndexByte(base, '.'); i >= 0 {
					name = base[i+1:] // parent
				} else {
					name = base + base
				}
			}
		} else {
			name = genDomain(t, 6)
		}
		switch rapid.IntRange(0, 4).Draw(t, "ncase") {
		case 0:
			name = strings.ToUpper(name)
		case 1:
			name = strings.ToLower(name)
		}
		if rapid.Bool().Draw(t, "ndot") {
			name += "."
		}
		c.Names = append(c.Names, name)
	}
	return c
}

// ---------------------------------------------------------------- reference

func norm(s string) string {
	if strings.HasSuffix(s, ".") {
		s = s[:len(s)-1]
	}
	// ASCII lower-casing written out (generated names are ASCII)
	b := []byte(s)
	for i, ch := range b {
		if ch >= 'A' && ch <= 'Z' {
			b[i] = ch + 32
		}
	}
	return string(b)
}

type refResult struct {
	match   bool
	allowed map[int]bool // rule indices whose value may be returned
	kinds   map[string]bool
	nearMiss bool // string-suffix of a domain rule but not on a label boundary
}

func reference(rules []Rule, name string) refResult {
	n := norm(name)
	res := refResult{allowed: map[int]bool{}, kinds: map[string]bool{}}
	var fulls, regs, kws []int
	bestLen := -1
	var bestDom []int
	for i, r := range rules {
		switch r.Kind {
		case "full":
			if norm(r.Pattern) == n {
				fulls = append(fulls, i)
			}
		case "domain":
			p := norm(r.Pattern)
			if p == "" || n == p || strings.HasSuffix(n, "."+p) { // "" is the root: every name lies under it
				if len(p) > bestLen {
					bestLen, bestDom = len(p), []int{i}
				} else if len(p) == bestLen {
					bestDom = append(bestDom, i)
				}
			} else if strings.HasSuffix(n, p) {
				res.nearMiss = true
			}
		case "regexp":
			if compiled(r.Pattern).MatchString(n) {
				regs = append(regs, i)
			}
		case "keyword":
			if strings.Contains(n, norm(r.Pattern)) {
				kws = append(kws, i)
			}
		}
	}
	if len(fulls) > 0 {
		res.kinds["full"] = true
	}
	if len(bestDom) > 0 {
		res.kinds["domain"] = true
	}
	if len(regs) > 0 {
		res.kinds["regexp"] = true
	}
	if len(kws) > 0 {
		res.kinds["keyword"] = true
	}
	var win []int
	switch {
	case len(fulls) > 0:
		win = fulls
	case len(bestDom) > 0:
		win = bestDom
	case len(regs) > 0:
		win = regs
	case len(kws) > 0:
		win = kws
	}
	for _, i := range win {
		res.allowed[i] = true
	}
	res.match = len(win) > 0
	return res
}

var reCache = map[string]*regexp.Regexp{}

func compiled(p string) *regexp.Regexp {
	if r, ok := reCache[p]; ok {
		return r
	}
	r := regexp.MustCompile(p)
	reCache[p] = r
	return r
}

// ---------------------------------------------------------------- engines

// lookup returns (matched, value index or -1 when the engine carries no values).
type lookup func(name string) (bool, int)

func idxIP(i int) string { return fmt.Sprintf("10.%d.%d.1", i/250, i%250) }
func ipIdx(a netip.Addr) int {
	b := a.As4()
	return int(b[1])*250 + int(b[2])
}

func parseIdx(s string) (string, int, error) {
	f := strings.Fields(s)
	if len(f) != 2 {
		return "", 0, fmt.Errorf("want 2 fields, got %d in %q", len(f), s)
	}
	v, err := strconv.Atoi(f[1])
	return f[0], v, err
}

func textFile(lines []string) string {
	var sb strings.Builder
	sb.WriteString("# rules\n\n")
	for i, l := range lines {
		switch i % 4 {
		case 0:
			sb.WriteString(l + "\n")
		case 1:
			sb.WriteString("  " + l + "   # comment full:zzz\n")
		case 2:
			sb.WriteString(l + "\n\n   \n")
		case 3:
			sb.WriteString("\t" + l + "\r\n")
		}
	}
	if len(lines)%2 == 1 {
		// every other text ends without a final newline: its last rule counts like any other
		return strings.TrimRight(sb.String(), "\r\n \t")
	}
	return sb.String()
}

func build(c Case) (lookup, error) {
	switch c.Engine {
	case "mix_add", "mix_load", "mix_text":
		m := domain.NewMixMatcher[int]()
		m.SetDefaultMatcher(c.Default)
		switch c.Engine {
		case "mix_add":
			for i, r := range c.Rules {
				if err := m.Add(r.text(), i); err != nil {
					return nil, fmt.Errorf("Add(%q): %w", r.text(), err)
				}
			}
		case "mix_load":
			for i, r := range c.Rules {
				if err := domain.Load[int](m, fmt.Sprintf("%s %d", r.text(), i), parseIdx); err != nil {
					return nil, fmt.Errorf("Load(%q): %w", r.text(), err)
				}
			}
		case "mix_text":
			var lines []string
			for i, r := range c.Rules {
				lines = append(lines, fmt.Sprintf("%s %d", r.text(), i))
			}
			if err := domain.LoadFromTextReader[int](m, strings.NewReader(textFile(lines)), parseIdx); err != nil {
				return nil, err
			}
		}
		return func(name string) (bool, int) {
			v, ok := m.Match(name)
			if !ok {
				return false, -1
			}
			return true, v
		}, nil
	case "domain_set", "domain_set_file":
		args := &domain_set.Args{}
		var lines []string
		for _, r := range c.Rules {
			lines = append(lines, r.text())
		}
		if c.Engine == "domain_set" {
			args.Exps = lines
		} else {
			dir, err := os.MkdirTemp("", "c12")
			if err != nil {
				return nil, err
			}
			defer os.RemoveAll(dir)
			half := len(lines) / 2
			f := filepath.Join(dir, "d.txt")
			if err := os.WriteFile(f, []byte(textFile(lines[:half])), 0o644); err != nil {
				return nil, err
			}
			args.Files = []string{f}
			args.Exps = lines[half:]
		}
		ds, err := domain_set.NewDomainSet(coremain.NewBP("c12", coremain.NewTestMosdnsWithPlugins(nil)), args)
		if err != nil {
			return nil, err
		}
		m := ds.GetDomainMatcher()
		return func(name string) (bool, int) {
			_, ok := m.Match(name)
			return ok, -1
		}, nil
	case "hosts", "hosts_file":
		args := &hostsplugin.Args{}
		var lines []string
		for i, r := range c.Rules {
			lines = append(lines, fmt.Sprintf("%s %s", r.text(), idxIP(i)))
		}
		if c.Engine == "hosts" {
			args.Entries = lines
		} else {
			dir, err := os.MkdirTemp("", "c12")
			if err != nil {
				return nil, err
			}
			defer os.RemoveAll(dir)
			f := filepath.Join(dir, "h.txt")
			if err := os.WriteFile(f, []byte(textFile(lines)), 0o644); err != nil {
				return nil, err
			}
			args.Files = []string{f}
		}
		h, err := hostsplugin.NewHosts(args)
		if err != nil {
			return nil, err
		}
		return func(name string) (bool, int) {
			q := new(dns.Msg)
			q.Question = []dns.Question{{Name: dns.Fqdn(name), Qtype: dns.TypeA, Qclass: dns.ClassINET}}
			r := h.Response(q)
			if r == nil {
				return false, -1
			}
			if len(r.Answer) != 1 {
				return true, -2
			}
			a, _ := netip.AddrFromSlice(r.Answer[0].(*dns.A).A)
			return true, ipIdx(a.Unmap())
		}, nil
	case "redirect":
		args := &redirect.Args{}
		for i, r := range c.Rules {
			args.Rules = append(args.Rules, fmt.Sprintf("%s t%d.target", r.text(), i))
		}
		rd, err := redirect.NewRedirect(args)
		if err != nil {
			return nil, err
		}
		return func(name string) (bool, int) {
			q := new(dns.Msg)
			fq := dns.Fqdn(name)
			q.Question = []dns.Question{{Name: fq, Qtype: dns.TypeA, Qclass: dns.ClassINET}}
			qCtx := query_context.NewContext(q)
			seen := ""
			rec := execFunc(func(_ context.Context, qc *query_context.Context) error {
				seen = qc.Q().Question[0].Name
				return nil
			})
			w := sequence.NewChainWalker([]*sequence.ChainNode{{E: rec}}, nil)
			if err := rd.Exec(context.Background(), qCtx, w); err != nil {
				return false, -3
			}
			if seen == fq {
				return false, -1
			}
			var idx int
			if _, err := fmt.Sscanf(seen, "t%d.target.", &idx); err != nil {
				return true, -2
			}
			return true, idx
		}, nil
	}
	return nil, fmt.Errorf("unknown engine %q", c.Engine)
}

type execFunc func(context.Context, *query_context.Context) error

func (f execFunc) Exec(ctx context.Context, q *query_context.Context) error { return f(ctx, q) }

// ---------------------------------------------------------------- property

func runCase(c Case, ctx *hx.Ctx) *hx.Failure {
	var lk lookup
	var err error
	if done, hang, detail := hx.CallBounded(30*time.Second, func() { lk, err = build(c) }); !done {
		if hang {
			return hx.Failf("C12/never-returns", "engine %s: loading the rule set has not finished after 30 s (rules=%v); stuck:\n%s", c.Engine, ruleTexts(c.Rules), detail)
		}
		ctx.Class("inconclusive:load-slow")
		return nil
	}
	if err != nil {
		return hx.Failf("C12/load-rejects-valid-rule", "engine %s refused a valid rule set: %v", c.Engine, err)
	}
	nt := false
	kindsSeen := map[string]bool{}
	matches := 0
	for _, name := range c.Names {
		ref := reference(c.Rules, name)
		var got bool
		var v int
		if done, hang, detail := hx.CallBounded(30*time.Second, func() { got, v = lk(name) }); !done {
			if hang {
				return hx.Failf("C12/never-returns", "engine=%s name=%q: Match has not returned after 30 s (rules=%v); stuck:\n%s", c.Engine, name, ruleTexts(c.Rules), detail)
			}
			ctx.Class("inconclusive:match-slow")
			return nil
		}
		if got != ref.match {
			sig := "C12/false-negative"
			if got {
				sig = "C12/false-positive"
			}
			return hx.Failf(sig, "engine=%s default=%s name=%q: matcher says %v, reference says %v (rules=%v)", c.Engine, c.Default, name, got, ref.match, ruleTexts(c.Rules))
		}
		if got {
			matches++
		}
		if got && v != -1 && !ref.allowed[v] {
			return hx.Failf("C12/wrong-value-precedence", "engine=%s default=%s name=%q: value of rule #%d returned, allowed rules %v (rules=%v)", c.Engine, c.Default, name, v, keys(ref.allowed), ruleTexts(c.Rules))
		}
		if ref.nearMiss && !ref.kinds["domain"] {
			nt = true
		}
		if len(ref.kinds) >= 2 {
			nt = true
		}
		for k := range ref.kinds {
			kindsSeen[k] = true
		}
	}
	ctx.Class("engine=" + c.Engine)
	for k := range kindsSeen {
		ctx.Class("matched-kind=" + k)
	}
	if matches == 0 {
		ctx.Class("no-name-matched")
	}
	if nt {
		ctx.Nontrivial(fmt.Sprintf("%s|%s|%v|%v", c.Engine, c.Default, c.Rules, c.Names))
	}
	ctx.Sample(map[string]any{"engine": c.Engine, "default": c.Default, "rules": ruleTexts(c.Rules), "names": c.Names})
	return nil
}

func ruleTexts(rs []Rule) []string {
	var out []string
	for _, r := range rs {
		out = append(out, r.text())
	}
	return out
}

func keys(m map[int]bool) []int {
	var out []int
	for k := range m {
		out = append(out, k)
	}
	return out
}

func TestPropMatch(t *testing.T) { hx.Check(t, 50000, genCase, runCase) }

func TestReplay(t *testing.T) { hx.Replay(t, "TestPropMatch", 1, runCase) }

func FuzzMatch(f *testing.F) { hx.Fuzz(f, genCase, runCase) }
