// C03 — every valid query gets one reply with its own ID and question.
package c03

import (
	"bytes"
	"context"
	"encoding/base64"
	"encoding/binary"
	"errors"
	"fmt"
	"io"
	"net"
	"net/http"
	"net/http/httptest"
	"strings"
	"sync"
	"testing"
	"time"

	"github.com/IrineSistiana/mosdns/v5/pkg/pool"
	"github.com/IrineSistiana/mosdns/v5/pkg/server"
	"github.com/IrineSistiana/mosdns/v5/pkg/server_handler"
	"github.com/IrineSistiana/mosdns/v5/plugin/executable/arbitrary"
	cacheplugin "github.com/IrineSistiana/mosdns/v5/plugin/executable/cache"
	hostsplugin "github.com/IrineSistiana/mosdns/v5/plugin/executable/hosts"
	"github.com/IrineSistiana/mosdns/v5/plugin/executable/redirect"
	"github.com/IrineSistiana/mosdns/v5/plugin/executable/sequence"
	"github.com/IrineSistiana/mosdns/v5/plugin/executable/sequence/fallback"
	"github.com/miekg/dns"
	"pgregory.net/rapid"

	"verif/harness/hand"
	"verif/harness/hx"
)

func TestMain(m *testing.M) { hx.Main(m) }

type Rule struct {
	Matches []string `json:"matches"`
	Exec    string   `json:"exec"`
}

type Opt struct {
	Size    uint16   `json:"size"`
	DO      bool     `json:"do"`
	Version uint8    `json:"version"`
	Options []uint16 `json:"options"`
}

type Query struct {
	ID        uint16 `json:"id"`
	Name      string `json:"name"`
	Type      uint16 `json:"type"`
	Class     uint16 `json:"class"`
	RD        bool   `json:"rd"`
	AD        bool   `json:"ad"`
	CD        bool   `json:"cd"`
	Z         bool   `json:"z"`
	Opcode    int    `json:"opcode"`
	Opt       *Opt   `json:"opt"`
	Malformed string `json:"malformed"` // "" | qr | q0 | q2 | answer | ns | extra2 | wirecut (wire image cut inside the first label of the question, or inside the header for the root name; only via sockets/DoH)
	UDP       bool   `json:"udp"`
	Via       string `json:"via"` // handle (EntryHandler.Handle directly) | get | post (HttpHandler) | tcpsrv (ServeTCP on loopback) | udpsrv (ServeUDP on loopback)
}

type Up struct {
	Rcode      int    `json:"rcode"`
	TargetSize int    `json:"target_size"` // approximate packed size of the upstream answer (0 = no records)
	Err        bool   `json:"err"`
	TC         bool   `json:"tc"`
	WithOpt    bool   `json:"with_opt"`
	EmptyFor   uint16 `json:"empty_for"` // queries of this type get an empty NOERROR answer (0 = none): the name "has no record of that type"
}

type Case struct {
	Main    []Rule  `json:"main"`
	Prim    []Rule  `json:"primary"` // sub-sequences for the fallback plugin
	Sec     []Rule  `json:"secondary"`
	Lazy    bool    `json:"lazy_cache"`
	Up      Up      `json:"upstream"`
	UpOther Up      `json:"upstream_other"` // used for names starting with 'o'
	Queries []Query `json:"queries"`
}

var names = []string{
	"www.example.com.", "Www.Example.COM.", "hosted.example.", "HOSTED.example.", "sub.h.example.", "redir.example.", "x.rd.example.", "arb.example.", "other.test.", "o2.test.", "a.", "target.example.", "cdn.example.net.", "www2.example.com.",
	strings.Repeat("a23456789012345678901234567890123456789012345678901234567890123.", 3) + "b234567890123456789012345678901234567890123456789012345678901.", // 255 octets on the wire (3 x 64 + 62 + root)
}

// alias -> target of the redirect rules the harness configures (lower case)
var redirectTarget = map[string]string{"redir.example.": "target.example.", "x.rd.example.": "cdn.example.net.", "www.example.com.": "www2.example.com."}

func prevName(qs []Query, i int) string {
	if i == 0 {
		return ""
	}
	return qs[i-1].Name
}

var execs = []string{"$cache", "$cache", "cache 1024", "$redir", "$redir", "$hosts", "black_hole 192.0.2.66 2001:db8::66", "$arb", "reject", "reject 3", "reject 2", "ttl 5", "ttl 10-20", "ecs 1.2.3.4", "prefer_ipv4", "prefer_ipv6", "$fwd", "$fwd", "$fwd", "$fb", "accept", "drop_resp"}
var matchers = []string{"has_resp", "!has_resp", "qtype 1", "qtype 28", "!qtype 1", "qname domain:example.com", "qname example rd.example", "_true", "_false", "! _false", "qclass 1"}

func genRules(t *rapid.T, l string, max int, allowFb bool) []Rule {
	n := rapid.IntRange(0, max).Draw(t, l+"n")
	var rs []Rule
	for i := 0; i < n; i++ {
		var r Rule
		r.Exec = rapid.SampledFrom(execs).Draw(t, l+"exec")
		if r.Exec == "$fb" && !allowFb {
			r.Exec = "$fwd"
		}
		nm := rapid.SampledFrom([]int{0, 0, 0, 1, 1, 2}).Draw(t, l+"nm")
		for k := 0; k < nm; k++ {
			r.Matches = append(r.Matches, rapid.SampledFrom(matchers).Draw(t, l+"m"))
		}
		rs = append(rs, r)
	}
	return rs
}

func genUp(t *rapid.T, l string, limits []int) Up {
	u := Up{}
	u.Rcode = rapid.SampledFrom([]int{0, 0, 0, 0, 3, 2, 5, 1, 4, 9, 15}).Draw(t, l+"rcode")
	switch rapid.IntRange(0, 5).Draw(t, l+"sz") {
	case 0:
		u.TargetSize = 0
	case 1:
		u.TargetSize = rapid.IntRange(40, 400).Draw(t, l+"small")
	case 2, 3: // around a client limit
		u.TargetSize = limits[rapid.IntRange(0, len(limits)-1).Draw(t, l+"lim")] + rapid.IntRange(-70, 40).Draw(t, l+"delta")
	case 4:
		u.TargetSize = rapid.IntRange(400, 9000).Draw(t, l+"mid")
	case 5:
		u.TargetSize = rapid.IntRange(9000, 60000).Draw(t, l+"big")
	}
	if u.TargetSize < 0 {
		u.TargetSize = 0
	}
	if u.TargetSize > 60000 {
		u.TargetSize = 60000 // the statement covers answers that fit 65535 bytes; leave room for what the chain adds
	}
	u.Err = rapid.IntRange(0, 7).Draw(t, l+"err") == 0
	u.TC = rapid.IntRange(0, 11).Draw(t, l+"tc") == 0
	u.WithOpt = rapid.Bool().Draw(t, l+"opt")
	u.EmptyFor = rapid.SampledFrom([]uint16{0, 0, 1, 28}).Draw(t, l+"emptyFor")
	return u
}

func genCase(t *rapid.T) Case {
	var c Case
	c.Main = genRules(t, "main.", 5, true)
	if rapid.IntRange(0, 2).Draw(t, "endFwd") != 0 {
		c.Main = append(c.Main, Rule{Exec: "$fwd"})
	}
	c.Prim = genRules(t, "prim.", 2, false)
	c.Sec = genRules(t, "sec.", 2, false)
	c.Lazy = rapid.Bool().Draw(t, "lazy")
	limits := []int{512, 1232, 4096}
	nq := rapid.IntRange(1, 5).Draw(t, "nq")
	for i := 0; i < nq; i++ {
		sameOpt := false
		q := Query{ID: uint16(rapid.IntRange(0, 65535).Draw(t, "id")), RD: rapid.Bool().Draw(t, "rd"), AD: rapid.IntRange(0, 3).Draw(t, "ad") == 0, CD: rapid.IntRange(0, 3).Draw(t, "cd") == 0, Z: rapid.IntRange(0, 7).Draw(t, "z") == 0}
		if tgt, isAlias := redirectTarget[strings.ToLower(prevName(c.Queries, i))]; i > 0 && isAlias && rapid.Bool().Draw(t, "askTarget") {
			// the previous query was for a redirected name: now ask for its target directly (same type and class)
			q.Name, q.Type, q.Class = tgt, c.Queries[i-1].Type, c.Queries[i-1].Class
		} else if i > 0 && rapid.Bool().Draw(t, "repeat") { // repeats hit state left by earlier queries (cache, selector memory)
			q.Name, q.Type, q.Class = c.Queries[i-1].Name, c.Queries[i-1].Type, c.Queries[i-1].Class
			if rapid.Bool().Draw(t, "otherCase") {
				// the same question in another letter case (0x20 style), same DNSSEC flags: whatever state the first
				// query left must not leak its spelling of the name into this reply
				q.Name = swapCase(q.Name)
				q.AD, q.CD = c.Queries[i-1].AD, c.Queries[i-1].CD
				sameOpt = true
			}
		} else {
			q.Name = names[rapid.IntRange(0, len(names)-1).Draw(t, "name")]
			q.Type = rapid.SampledFrom([]uint16{1, 1, 28, 28, 16, 5, 15, 255, 257, 65280}).Draw(t, "type")
			q.Class = rapid.SampledFrom([]uint16{1, 1, 1, 1, 3, 255}).Draw(t, "class")
		}
		if rapid.IntRange(0, 7).Draw(t, "opk") == 0 {
			q.Opcode = rapid.SampledFrom([]int{1, 2, 4, 5}).Draw(t, "opcode")
		}
		if rapid.IntRange(0, 2).Draw(t, "hasOpt") != 0 {
			o := &Opt{Size: rapid.SampledFrom([]uint16{0, 100, 512, 513, 1232, 4096, 65535}).Draw(t, "osize"), DO: rapid.Bool().Draw(t, "do"), Version: uint8(rapid.SampledFrom([]int{0, 0, 0, 1, 255}).Draw(t, "ver"))}
			no := rapid.IntRange(0, 3).Draw(t, "nopts")
			for k := 0; k < no; k++ {
				o.Options = append(o.Options, rapid.SampledFrom([]uint16{8, 10, 12, 65001, 15}).Draw(t, "ocode"))
			}
			q.Opt = o
		}
		if sameOpt {
			q.Opt = c.Queries[i-1].Opt
		}
		if rapid.IntRange(0, 9).Draw(t, "mal") == 0 {
			q.Malformed = rapid.SampledFrom([]string{"qr", "q0", "q2", "answer", "ns", "extra2"}).Draw(t, "malk")
		}
		q.UDP = rapid.Bool().Draw(t, "udp")
		q.Via = rapid.SampledFrom([]string{"handle", "handle", "handle", "handle", "get", "post", "tcpsrv", "udpsrv"}).Draw(t, "via")
		if q.Via != "handle" && q.Malformed == "" && rapid.IntRange(0, 7).Draw(t, "wirecut") == 3 {
			q.Malformed = "wirecut"
		}
		switch q.Via {
		case "udpsrv":
			q.UDP = true
		case "get", "post", "tcpsrv":
			q.UDP = false
		}
		c.Queries = append(c.Queries, q)
		if q.Opt != nil && q.Opt.Size > 512 {
			limits = append(limits, int(q.Opt.Size))
		}
	}
	c.Up = genUp(t, "up.", limits)
	c.UpOther = genUp(t, "upo.", limits)
	if rapid.IntRange(0, 9).Draw(t, "redirectScenario") == 0 {
		// redirect in front of a cache: first the alias is asked, then its target directly (and the alias again)
		cacheExec := rapid.SampledFrom([]string{"$cache", "cache 1024"}).Draw(t, "rsCache")
		c.Main = append([]Rule{{Exec: "$redir"}, {Exec: cacheExec}}, c.Main...)
		c.Up.Err, c.Up.Rcode, c.Up.TC = false, 0, false
		if c.Up.TargetSize == 0 {
			c.Up.TargetSize = 120
		}
		aliases := []string{"redir.example.", "x.rd.example.", "www.example.com."}
		al := aliases[rapid.IntRange(0, 2).Draw(t, "rsAlias")]
		ty := rapid.SampledFrom([]uint16{1, 28, 16}).Draw(t, "rsType")
		mk := func(name string, id uint16) Query {
			return Query{ID: id, Name: name, Type: ty, Class: 1, RD: true, Via: "handle", UDP: rapid.Bool().Draw(t, "rsUdp")}
		}
		c.Queries = []Query{mk(al, 11), mk(redirectTarget[al], 12), mk(al, 13)}
	}
	if rapid.IntRange(0, 9).Draw(t, "selectorScenario") == 0 {
		// the dual-stack selector lets the original reply pass (the name has no record of the preferred type);
		// the reply is larger than what a small-buffer UDP client advertised
		pref, prefType, other := "prefer_ipv4", uint16(1), uint16(28)
		if rapid.Bool().Draw(t, "pref6") {
			pref, prefType, other = "prefer_ipv6", 28, 1
		}
		c.Main = append([]Rule{{Exec: pref}}, c.Main...)
		c.Up.EmptyFor, c.Up.Err, c.Up.Rcode = prefType, false, 0
		c.Up.TargetSize = rapid.IntRange(300, 1400).Draw(t, "selSize")
		for i := range c.Queries {
			if c.Queries[i].Malformed == "" && !strings.HasPrefix(strings.ToLower(c.Queries[i].Name), "o") {
				c.Queries[i].Type, c.Queries[i].Class, c.Queries[i].UDP, c.Queries[i].Via = other, 1, true, "handle"
				c.Queries[i].Opt = &Opt{Size: rapid.SampledFrom([]uint16{0, 512, 600, 800, 1000}).Draw(t, "selOptSize")}
			}
		}
	}
	return c
}

// ---------------------------------------------------------------- upstream behaviour

func respond(u Up, clientHasOpt func() bool) func(q *dns.Msg) (*dns.Msg, error) {
	return func(q *dns.Msg) (*dns.Msg, error) {
		if u.Err {
			return nil, errors.New("scripted upstream failure")
		}
		r := new(dns.Msg)
		r.SetReply(q)
		r.Rcode = u.Rcode
		r.Truncated = u.TC
		qq := q.Question[0]
		if u.TargetSize > 0 && !(u.EmptyFor != 0 && qq.Qtype == u.EmptyFor) {
			size := 12 + len(qq.Name) + 5
			for i := 0; size < u.TargetSize && i < 400; i++ {
				remain := u.TargetSize - size
				var rr dns.RR
				switch {
				case qq.Qtype == dns.TypeA && i < 3:
					rr = &dns.A{Hdr: dns.RR_Header{Name: qq.Name, Rrtype: dns.TypeA, Class: dns.ClassINET, Ttl: 300}, A: []byte{198, 51, 100, byte(i)}}
				case qq.Qtype == dns.TypeAAAA && i < 3:
					rr = &dns.AAAA{Hdr: dns.RR_Header{Name: qq.Name, Rrtype: dns.TypeAAAA, Class: dns.ClassINET, Ttl: 300}, AAAA: []byte{0x20, 1, 0xd, 0xb8, 0, 0, 0, 0, 0, 0, 0, 0, 0, 0, 0, byte(i)}}
				default:
					l := remain - (len(qq.Name) + 11)
					if l > 200 {
						l = 200
					}
					if l < 1 {
						l = 1
					}
					rr = &dns.TXT{Hdr: dns.RR_Header{Name: qq.Name, Rrtype: dns.TypeTXT, Class: dns.ClassINET, Ttl: 300}, Txt: []string{strings.Repeat("t", l)}}
				}
				r.Answer = append(r.Answer, rr)
				size += dns.Len(rr)
			}
		}
		if u.WithOpt {
			o := new(dns.OPT)
			o.Hdr.Name, o.Hdr.Rrtype = ".", dns.TypeOPT
			o.SetUDPSize(1232)
			r.Extra = append(r.Extra, o)
		}
		return r, nil
	}
}

// ---------------------------------------------------------------- build and run

func toArgs(rs []Rule) []sequence.RuleArgs {
	var out []sequence.RuleArgs
	for _, r := range rs {
		out = append(out, sequence.RuleArgs{Matches: r.Matches, Exec: r.Exec})
	}
	return out
}

func buildQuery(q Query) *dns.Msg {
	m := new(dns.Msg)
	m.Id = q.ID
	m.RecursionDesired, m.AuthenticatedData, m.CheckingDisabled, m.Zero = q.RD, q.AD, q.CD, q.Z
	m.Opcode = q.Opcode
	m.Question = []dns.Question{{Name: q.Name, Qtype: q.Type, Qclass: q.Class}}
	if q.Opt != nil {
		o := new(dns.OPT)
		o.Hdr.Name, o.Hdr.Rrtype = ".", dns.TypeOPT
		o.SetUDPSize(q.Opt.Size)
		o.SetVersion(q.Opt.Version)
		if q.Opt.DO {
			o.SetDo()
		}
		for _, code := range q.Opt.Options {
			switch code {
			case 8:
				o.Option = append(o.Option, &dns.EDNS0_SUBNET{Code: 8, Family: 1, SourceNetmask: 24, Address: []byte{203, 0, 113, 0}})
			case 10:
				o.Option = append(o.Option, &dns.EDNS0_COOKIE{Code: 10, Cookie: "0102030405060708"})
			case 12:
				o.Option = append(o.Option, &dns.EDNS0_PADDING{Padding: make([]byte, 7)})
			default:
				o.Option = append(o.Option, &dns.EDNS0_LOCAL{Code: code, Data: []byte{1, 2, 3}})
			}
		}
		m.Extra = append(m.Extra, o)
	}
	extra := &dns.TXT{Hdr: dns.RR_Header{Name: "extra.", Rrtype: dns.TypeTXT, Class: dns.ClassINET, Ttl: 1}, Txt: []string{"x"}}
	switch q.Malformed {
	case "qr":
		m.Response = true
	case "q0":
		m.Question = nil
	case "q2":
		m.Question = append(m.Question, dns.Question{Name: "second.", Qtype: 1, Qclass: 1})
	case "answer":
		m.Answer = []dns.RR{extra}
	case "ns":
		m.Ns = []dns.RR{extra}
	case "extra2":
		m.Extra = append(m.Extra, extra, dns.Copy(extra))
	}
	return m
}

func swapCase(s string) string {
	b := []byte(s)
	for i, ch := range b {
		switch {
		case ch >= 'a' && ch <= 'z':
			b[i] = ch - 32
		case ch >= 'A' && ch <= 'Z':
			b[i] = ch + 32
		}
	}
	return string(b)
}

func rrs(s []dns.RR) []string {
	var out []string
	for _, r := range s {
		if r.Header().Rrtype == dns.TypeOPT {
			continue
		}
		out = append(out, r.String())
	}
	return out
}

func isPrefix(a, b []string) bool {
	if len(a) > len(b) {
		return false
	}
	for i := range a {
		if a[i] != b[i] {
			return false
		}
	}
	return true
}

func runCase(c Case, ctx *hx.Ctx) *hx.Failure {
	env, err := hand.NewEnv()
	if err != nil {
		return hx.Failf("C03/harness", "%v", err)
	}
	defer env.Close()
	lazy := 0
	if c.Lazy {
		lazy = 3600
	}
	env.Plugins["cache"] = cacheplugin.NewCache(&cacheplugin.Args{Size: 1024, LazyCacheTTL: lazy}, cacheplugin.Opts{})
	rd, err := redirect.NewRedirect(&redirect.Args{Rules: []string{"redir.example target.example", "domain:rd.example cdn.example.net", "full:www.example.com www2.example.com"}})
	if err != nil {
		return hx.Failf("C03/harness", "redirect: %v", err)
	}
	env.Plugins["redir"] = rd
	hp, err := hostsplugin.NewHosts(&hostsplugin.Args{Entries: []string{"hosted.example 10.0.0.1 2001:db8::1", "domain:h.example 10.0.0.2"}})
	if err != nil {
		return hx.Failf("C03/harness", "hosts: %v", err)
	}
	env.Plugins["hosts"] = hp
	ar, err := arbitrary.NewArbitrary(&arbitrary.Args{Rules: []string{"arb.example. 300 IN A 192.0.2.1", "arb.example. IN TXT \"hello\"", "www.example.com. 60 IN AAAA 2001:db8::7"}})
	if err != nil {
		return hx.Failf("C03/harness", "arbitrary: %v", err)
	}
	env.Plugins["arb"] = ar
	var cur *Query
	hasOpt := func() bool { return cur != nil && cur.Opt != nil }
	env.Up.Respond = func(q *dns.Msg) (*dns.Msg, error) {
		u := c.Up
		if strings.HasPrefix(strings.ToLower(q.Question[0].Name), "o") {
			u = c.UpOther
		}
		return respond(u, hasOpt)(q)
	}
	if err := env.AddSequence("seqP", toArgs(c.Prim)); err != nil {
		return hx.Failf("C03/program-rejected", "primary: %v", err)
	}
	if err := env.AddSequence("seqS", toArgs(c.Sec)); err != nil {
		return hx.Failf("C03/program-rejected", "secondary: %v", err)
	}
	fb, err := fallback.Init(env.BP("fb"), &fallback.Args{Primary: "seqP", Secondary: "seqS", Threshold: 2000})
	if err != nil {
		return hx.Failf("C03/harness", "fallback: %v", err)
	}
	env.Plugins["fb"] = fb
	if err := env.AddSequence("main", toArgs(c.Main)); err != nil {
		return hx.Failf("C03/program-rejected", "main: %v", err)
	}
	var caps []hand.Captured
	var mu sync.Mutex
	h, err := env.Handler("main", &caps, &mu)
	if err != nil {
		return hx.Failf("C03/harness", "%v", err)
	}

	nt := false
	for qi := range c.Queries {
		q := c.Queries[qi]
		cur = &c.Queries[qi]
		// extended rcodes only when the client sent OPT (the statement's scope)
		m := buildQuery(q)
		orig := m.Copy()
		meta := hand.TCPMeta()
		pack := pool.PackBuffer
		if q.UDP {
			meta = hand.UDPMeta()
		}
		mu.Lock()
		before := len(caps)
		mu.Unlock()
		var payload *[]byte
		if q.Via == "" || q.Via == "handle" {
			payload = h.Handle(context.Background(), m, meta, pack)
		} else {
			w, sendErr := sendVia(q.Via, h, m, q.Malformed != "", q.Malformed == "wirecut")
			ctx.Class("via=" + q.Via)
			if sendErr != nil {
				if q.Malformed == "" {
					return hx.Failf("C03/no-reply", "query %d %v sent via %s got no reply: %v\nprogram: %v", qi, orig.Question, q.Via, sendErr, c.Main)
				}
			} else {
				payload = &w
			}
		}
		mu.Lock()
		after := len(caps)
		var capd *hand.Captured
		if after > before {
			capd = &caps[after-1]
		}
		mu.Unlock()
		if q.Malformed != "" {
			if payload != nil {
				return hx.Failf("C03/malformed-query-answered", "malformed query (%s) got a %d-byte reply", q.Malformed, len(*payload))
			}
			ctx.Class("malformed-dropped")
			continue
		}
		if payload == nil {
			return hx.Failf("C03/no-reply", "query %d %v got no reply (chain error: %v)\nprogram: %v", qi, orig.Question, capErr(capd), c.Main)
		}
		wire := append([]byte(nil), *payload...)
		if q.Via == "" || q.Via == "handle" {
			pool.ReleaseBuf(payload)
		}
		r := new(dns.Msg)
		if err := r.Unpack(wire); err != nil {
			return hx.Failf("C03/reply-unparsable", "query %d: reply does not unpack: %v", qi, err)
		}
		where := fmt.Sprintf("query %d (%s type %d class %d id %d udp=%v opt=%v)\nprogram: main=%v primary=%v secondary=%v", qi, q.Name, q.Type, q.Class, q.ID, q.UDP, q.Opt != nil, c.Main, c.Prim, c.Sec)
		if r.Id != q.ID {
			return hx.Failf("C03/wrong-id", "reply id %d\n%s", r.Id, where)
		}
		if len(r.Question) != 1 || r.Question[0].Name != q.Name || r.Question[0].Qtype != q.Type || r.Question[0].Qclass != q.Class {
			return hx.Failf("C03/wrong-question", "reply question %v\n%s", r.Question, where)
		}
		if !r.Response {
			return hx.Failf("C03/qr-not-set", "%s", where)
		}
		if !r.RecursionAvailable {
			return hx.Failf("C03/ra-not-set", "%s", where)
		}
		if capd == nil {
			return hx.Failf("C03/harness", "entry not executed")
		}
		switch {
		case capd.Err != nil:
			if r.Rcode != dns.RcodeServerFailure {
				return hx.Failf("C03/error-not-servfail", "chain returned %v, reply rcode %d\n%s", capd.Err, r.Rcode, where)
			}
			ctx.Class("servfail-path")
			nt = nt || len(c.Main) >= 2
		case capd.Resp == nil:
			if r.Rcode != dns.RcodeRefused {
				return hx.Failf("C03/no-answer-not-refused", "chain produced no answer, reply rcode %d\n%s", r.Rcode, where)
			}
			ctx.Class("refused-path")
			nt = nt || len(c.Main) >= 2
		default:
			want := capd.Resp
			if want.Rcode > 15 && q.Opt == nil {
				ctx.Class("excluded:extended-rcode-without-client-opt")
				ctx.Excluded(1)
				continue
			}
			if r.Rcode != want.Rcode {
				return hx.Failf("C03/rcode-changed", "chain left rcode %d, reply has %d\n%s", want.Rcode, r.Rcode, where)
			}
			dropped := false
			for i, pair := range [][2][]string{{rrs(r.Answer), rrs(want.Answer)}, {rrs(r.Ns), rrs(want.Ns)}, {rrs(r.Extra), rrs(want.Extra)}} {
				if !isPrefix(pair[0], pair[1]) {
					return hx.Failf("C03/records-invented", "section %d of the reply is not a prefix of what the chain produced (%d vs %d records)\n%s", i, len(pair[0]), len(pair[1]), where)
				}
				if len(pair[0]) < len(pair[1]) {
					dropped = true
				}
			}
			if dropped && !q.UDP {
				return hx.Failf("C03/records-dropped-on-stream", "records were dropped although the query did not arrive over UDP\n%s", where)
			}
			if dropped && !r.Truncated {
				return hx.Failf("C03/truncated-without-tc", "records were dropped to fit UDP but TC is not set\n%s", where)
			}
			if want.Truncated && !r.Truncated {
				return hx.Failf("C03/tc-cleared", "the chain's answer had TC set, the reply has not\n%s", where)
			}
			if dropped {
				ctx.Class("udp-truncated")
				nt = true
			}
		}
		if q.UDP {
			limit := 512
			if q.Opt != nil && int(q.Opt.Size) > limit {
				limit = int(q.Opt.Size)
			}
			if len(wire) > limit {
				return hx.Failf("C03/udp-reply-too-large", "UDP reply is %d bytes, the client accepts %d (TC=%v)\n%s", len(wire), limit, r.Truncated, where)
			}
		}
		if qi > 0 && len(c.Main) >= 2 {
			nt = true
		}
	}
	ctx.Classf("rules=%d", len(c.Main))
	for _, r := range c.Main {
		ctx.Class("exec:" + strings.Fields(r.Exec)[0])
	}
	if nt {
		ctx.Nontrivial(fmt.Sprintf("%v", c))
	}
	ctx.Sample(map[string]any{"main": c.Main, "primary": c.Prim, "secondary": c.Sec, "queries": len(c.Queries), "first_query": c.Queries[0]})
	return nil
}

func capErr(c *hand.Captured) error {
	if c == nil {
		return nil
	}
	return c.Err
}

func TestPropHandler(t *testing.T) { hx.Check(t, 12000, genCase, runCase) }

func TestReplay(t *testing.T) { hx.Replay(t, "TestPropHandler", 3, runCase) }

// sendVia delivers the query through one of the real servers in front of the handler and
// returns the reply bytes; an error means "no DNS reply".
func sendVia(via string, h *server_handler.EntryHandler, m *dns.Msg, expectNothing, cut bool) ([]byte, error) {
	w, err := m.Pack()
	if err != nil {
		return nil, fmt.Errorf("query does not pack: %w", err)
	}
	if cut && len(w) > 13 {
		// the header announces a question the datagram / frame / body does not contain. The cut is inside the first
		// label (a question cut exactly after its name or after its type is read leniently as type/class 0 by the
		// DNS library and is then a well-formed query in the sense of the property); for the root name the header
		// itself is cut.
		if w[12] != 0 {
			w = w[:13]
		} else {
			w = w[:11]
		}
	}
	switch via {
	case "get", "post":
		hh := server.NewHttpHandler(h, server.HttpHandlerOpts{})
		var req *http.Request
		if via == "get" {
			req = httptest.NewRequest("GET", "/dns-query?dns="+base64.RawURLEncoding.EncodeToString(w), nil)
			req.Header.Set("Accept", "application/dns-message")
		} else {
			req = httptest.NewRequest("POST", "/dns-query", bytes.NewReader(w))
			req.Header.Set("Content-Type", "application/dns-message")
		}
		rec := httptest.NewRecorder()
		hh.ServeHTTP(rec, req)
		if rec.Code != 200 {
			return nil, fmt.Errorf("http status %d", rec.Code)
		}
		if ct := rec.Header().Get("Content-Type"); ct != "application/dns-message" {
			return nil, fmt.Errorf("content type %q", ct)
		}
		return rec.Body.Bytes(), nil
	case "tcpsrv":
		l, err := net.Listen("tcp", "127.0.0.1:0")
		if err != nil {
			return nil, err
		}
		defer l.Close()
		go server.ServeTCP(l, h, server.TCPServerOpts{})
		c, err := net.Dial("tcp", l.Addr().String())
		if err != nil {
			return nil, err
		}
		defer c.Close()
		fr := binary.BigEndian.AppendUint16(nil, uint16(len(w)))
		if _, err := c.Write(append(fr, w...)); err != nil {
			return nil, err
		}
		c.SetReadDeadline(time.Now().Add(3 * time.Second))
		hdr := make([]byte, 2)
		if _, err := io.ReadFull(c, hdr); err != nil {
			return nil, fmt.Errorf("no frame: %w", err)
		}
		b := make([]byte, binary.BigEndian.Uint16(hdr))
		if _, err := io.ReadFull(c, b); err != nil {
			return nil, fmt.Errorf("short frame: %w", err)
		}
		return b, nil
	case "udpsrv":
		uc, err := net.ListenUDP("udp", &net.UDPAddr{IP: net.IPv4(127, 0, 0, 1)})
		if err != nil {
			return nil, err
		}
		defer uc.Close()
		go server.ServeUDP(uc, h, server.UDPServerOpts{})
		c, err := net.DialUDP("udp", nil, uc.LocalAddr().(*net.UDPAddr))
		if err != nil {
			return nil, err
		}
		defer c.Close()
		if _, err := c.Write(w); err != nil {
			return nil, err
		}
		wait := 1500 * time.Millisecond
		if expectNothing {
			wait = 100 * time.Millisecond // a malformed query must stay unanswered; do not wait long for nothing
		}
		c.SetReadDeadline(time.Now().Add(wait))
		b := make([]byte, 65535)
		n, err := c.Read(b)
		if err != nil {
			return nil, fmt.Errorf("no datagram: %w", err)
		}
		return b[:n], nil
	}
	return nil, fmt.Errorf("unknown via %q", via)
}
