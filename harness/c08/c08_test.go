// C08 — failures of reused connections are retried, fresh ones reported.
package c08

import (
	"context"
	"errors"
	"fmt"
	"io"
	"sync"
	"testing"
	"time"

	"github.com/IrineSistiana/mosdns/v5/pkg/upstream/transport"
	"pgregory.net/rapid"

	"verif/harness/fakenet"
	"verif/harness/hx"
	"verif/harness/peer"
	"verif/harness/quiesce"
	"verif/harness/tx"
)

func TestMain(m *testing.M) { hx.Main(m) }

// Beh: what the server does with one connection.
type Beh struct {
	Kind string `json:"kind"` // healthy | close_after_reply | stale_after | reset_after | close_inflight | vanish_after
	K    int    `json:"k"`    // after this many answered queries
}

type Case struct {
	Engine      string `json:"engine"` // pipe | reuse
	Datagram    bool   `json:"datagram"`
	Conns       []Beh  `json:"conns"`     // behaviour of the i-th successfully dialled connection (the last entry repeats)
	DialFail    []bool `json:"dial_fail"` // whether the i-th dial fails (missing = ok)
	Bursts      []int  `json:"bursts"`    // queries are issued in bursts of this many concurrent calls
	MaxCQ       int    `json:"max_cq"`
	SlowCloseMs int    `json:"slow_close_ms"` // Close() of a connection takes this long
	// Abandon: before the bursts, this many callers give up (context cancelled) while their connection is still being
	// dialled; the dials then complete, leaving connections in the pool that never carried a query
	Abandon int `json:"abandon,omitempty"`
	// GateDials: the dials of a burst are held until its queries have queued up (several queries then share one
	// dialing connection on a pipelined transport), and released together
	GateDials bool `json:"gate_dials,omitempty"`
}

func genCase(t *rapid.T) Case {
	var c Case
	c.Engine = rapid.SampledFrom([]string{"pipe", "reuse"}).Draw(t, "engine")
	if c.Engine == "pipe" {
		c.Datagram = rapid.Bool().Draw(t, "datagram")
		c.MaxCQ = rapid.SampledFrom([]int{1, 2, 64}).Draw(t, "maxcq")
	}
	if rapid.IntRange(0, 5).Draw(t, "manyStale") == 0 {
		// more stale pooled connections than the retry bound: the bound itself is exercised
		n := rapid.IntRange(4, 8).Draw(t, "nstale")
		kind := rapid.SampledFrom([]string{"stale_after", "reset_after"}).Draw(t, "skind")
		for i := 0; i < n; i++ {
			c.Conns = append(c.Conns, Beh{Kind: kind, K: 1})
		}
		c.Conns = append(c.Conns, Beh{Kind: "healthy"})
		c.Bursts = []int{n, 1, 1, 1}
		if c.Engine == "pipe" {
			c.MaxCQ = 1
		}
		return c
	}
	nc := rapid.IntRange(1, 8).Draw(t, "nconns")
	for i := 0; i < nc; i++ {
		kind := rapid.SampledFrom([]string{"healthy", "healthy", "close_after_reply", "stale_after", "stale_after", "reset_after", "close_inflight", "vanish_after"}).Draw(t, "kind")
		c.Conns = append(c.Conns, Beh{Kind: kind, K: rapid.IntRange(1, 3).Draw(t, "k")})
	}
	c.GateDials = rapid.IntRange(0, 3).Draw(t, "gateDials") == 2
	if rapid.IntRange(0, 3).Draw(t, "abandon") == 1 {
		c.Abandon = rapid.IntRange(1, 3).Draw(t, "nabandon")
		// the abandoned connections are the first ones dialled: some of them die on the first query they ever see
		for i := 0; i < c.Abandon && i < nc; i++ {
			if rapid.Bool().Draw(t, "killOnFirst") {
				c.Conns[i] = Beh{Kind: rapid.SampledFrom([]string{"close_inflight", "vanish_after"}).Draw(t, "k0kind"), K: 0}
			}
		}
	}
	c.Conns = append(c.Conns, Beh{Kind: "healthy"}) // from here on the server behaves
	nd := rapid.IntRange(0, 6).Draw(t, "ndial")
	for i := 0; i < nd; i++ {
		c.DialFail = append(c.DialFail, rapid.IntRange(0, 5).Draw(t, "df") == 0)
	}
	c.SlowCloseMs = rapid.SampledFrom([]int{0, 0, 0, 10}).Draw(t, "slowclose")
	nb := rapid.IntRange(1, 12).Draw(t, "nbursts")
	for i := 0; i < nb; i++ {
		c.Bursts = append(c.Bursts, rapid.SampledFrom([]int{1, 1, 1, 2, 4}).Draw(t, "burst"))
	}
	return c
}

type connState struct {
	beh      Beh
	answered int
	dead     bool // the server has dropped it (whether or not the client noticed)
}

func runCase(c Case, ctx *hx.Ctx) *hx.Failure {
	w := peer.NewWatcher()
	env := tx.NewEnv(c.Datagram)
	var mu sync.Mutex
	states := map[int]*connState{}
	dialIdx := 0
	dialFails := 0
	env.OnDial = func(cn int, fc *fakenet.Conn) error {
		mu.Lock()
		i := dialIdx
		dialIdx++
		fail := i < len(c.DialFail) && c.DialFail[i]
		if fail {
			dialFails++
		}
		mu.Unlock()
		if fail {
			return tx.ErrDial
		}
		b := c.Conns[min(cn, len(c.Conns)-1)]
		mu.Lock()
		states[cn] = &connState{beh: b}
		mu.Unlock()
		if c.SlowCloseMs > 0 {
			fc.SetSlowClose(time.Duration(c.SlowCloseMs) * time.Millisecond)
		}
		w.Install(cn, fc)
		return nil
	}
	w.Auto = func(cn int, fc *fakenet.Conn, name string, q []byte) {
		mu.Lock()
		st := states[cn]
		if st == nil {
			mu.Unlock()
			return
		}
		if st.dead {
			// a query that slipped in while the server was dropping the connection: the server resets it
			mu.Unlock()
			fc.FeedErr(io.EOF)
			return
		}
		b := st.beh
		if b.Kind == "vanish_after" && st.answered >= b.K {
			// the server is gone without a trace: nothing comes back; the client's own read deadline
			// (6-10 s in production, virtual here) is what detects it
			mu.Unlock()
			go func() {
				time.Sleep(time.Millisecond)
				fc.FireReadDeadline()
			}()
			return
		}
		if b.Kind == "close_inflight" && st.answered >= b.K {
			// the server closes the connection with this query (and any other) unanswered
			st.dead = true
			mu.Unlock()
			fc.FeedErr(io.EOF)
			return
		}
		st.answered++
		n := st.answered
		mu.Unlock()
		r, _, err := w.Book.Reply(cn, q, 0)
		if err != nil {
			return
		}
		fc.Feed(fc.Frame(r))
		if n >= b.K {
			switch b.Kind {
			case "close_after_reply":
				mu.Lock()
				st.dead = true
				mu.Unlock()
				fc.FeedErr(io.EOF)
			case "stale_after": // dropped silently: the client sees nothing until its next write fails
				mu.Lock()
				st.dead = true
				mu.Unlock()
				fc.FailWritesFromNow(fakenet.ErrInjected)
			case "reset_after": // next write fails and the read side breaks too
				mu.Lock()
				st.dead = true
				mu.Unlock()
				fc.FailWritesFromNow(fakenet.ErrInjected)
			}
		}
	}
	eng, err := tx.NewEngine(c.Engine, env, tx.Opt{MaxCQ: c.MaxCQ, LazyQueue: c.MaxCQ})
	if err != nil {
		return hx.Failf("C08/harness", "%v", err)
	}
	defer func() {
		// Close may itself block when the transport is wedged; that verdict is reported by the caller check below
		done := make(chan struct{})
		go func() { eng.Close(); close(done) }()
		select {
		case <-done:
		case <-time.After(10 * time.Second):
		}
	}()

	type call struct {
		name                            string
		id                              uint16
		resp                            *[]byte
		err                             error
		dialFailsBefore, dialFailsAfter int
	}
	serial := 0
	retried, failedFreshOrDial, maxAttempts := 0, 0, 0
	pooledUnused := 0
	if c.Abandon > 0 {
		gate := make(chan struct{})
		env.DialGate = gate
		var awg sync.WaitGroup
		for i := 0; i < c.Abandon; i++ {
			serial++
			name, id := fmt.Sprintf("s%d.c08.test.", serial), uint16(serial*3)
			cx, cancel := context.WithCancel(context.Background())
			awg.Add(1)
			go func() {
				defer awg.Done()
				eng.Exchange(cx, peer.Query(id, name, 16))
			}()
			env.WaitDials(i+1, 20*time.Millisecond)
			time.Sleep(200 * time.Microsecond)
			cancel()
		}
		adone := make(chan struct{})
		go func() { awg.Wait(); close(adone) }()
		select {
		case <-adone:
		case <-time.After(10 * time.Second):
			close(gate)
			ctx.Class("inconclusive:abandoning-callers-slow")
			return nil
		}
		started := env.DialsStarted()
		close(gate)
		deadline := time.Now().Add(2 * time.Second)
		for time.Now().Before(deadline) && env.DialsFinished()+env.DialsCancelled() < started {
			time.Sleep(200 * time.Microsecond)
		}
		// the transport's dial goroutines hand the finished connections to the pool
		quiesce.WaitGone("getNewConn", time.Second)
		time.Sleep(500 * time.Microsecond)
		pooledUnused = len(env.Conns())
	}
	for _, n := range c.Bursts {
		// connections that exist before the burst were certainly not opened for one of its queries;
		// a connection dialled during the burst may have been opened for any of them
		oldConn := map[int]bool{}
		for _, fc := range env.Conns() {
			oldConn[fc.ID] = true
		}
		// connections the transport itself had closed before this burst (no close is in progress any more): it knows
		// they are dead, so no query of the burst may be written to them
		quiesce.WaitGone("loseWithErr", 2*time.Second)
		deadBefore := map[int]int{}
		for _, fc := range env.Conns() {
			if fc.IsClosed() {
				deadBefore[fc.ID] = len(fc.FailedWrites())
			}
		}
		calls := make([]*call, n)
		var wg sync.WaitGroup
		var burstGate chan struct{}
		if c.GateDials {
			burstGate = make(chan struct{})
			env.SetDialGate(burstGate)
		}
		for i := range calls {
			serial++
			cl := &call{name: fmt.Sprintf("s%d.c08.test.", serial), id: uint16(serial * 3)}
			calls[i] = cl
			mu.Lock()
			cl.dialFailsBefore = dialFails
			mu.Unlock()
			wg.Add(1)
			go func() {
				defer wg.Done()
				cx, cancel := context.WithTimeout(context.Background(), 20*time.Second)
				defer cancel()
				cl.resp, cl.err = eng.Exchange(cx, peer.Query(cl.id, cl.name, 16))
			}()
		}
		if burstGate != nil {
			// let the burst queue up behind the held dial(s), then let every dial finish
			time.Sleep(time.Millisecond)
			env.SetDialGate(nil)
			close(burstGate)
		}
		returned := make(chan struct{})
		go func() { wg.Wait(); close(returned) }()
		select {
		case <-returned:
		case <-time.After(32 * time.Second):
			// every caller's context ended 12 s ago: "its context ended" is one of the listed reasons to report failure,
			// so a caller still inside the transport neither succeeded nor reported anything
			hang, detail := hx.HangVerdict("c08.runCase.func", nil)
			if !hang {
				ctx.Class("inconclusive:callers-slow")
				return nil
			}
			return hx.Failf("C08/exchange-never-returns", "engine=%s datagram=%v: a burst of %d queries has callers still inside ExchangeContext 12 s after their contexts ended; stuck in the transport:\n%s", c.Engine, c.Datagram, n, detail)
		}
		for _, fc := range env.Conns() {
			if before, dead := deadBefore[fc.ID]; dead {
				if fw := fc.FailedWrites(); len(fw) > before {
					p := fw[before]
					if !c.Datagram && len(p) > 2 {
						p = p[2:]
					}
					return hx.Failf("C08/dead-connection-still-used", "engine=%s datagram=%v: connection %d had been closed by the transport before this burst started, yet query %s of the burst was written to it (%d such writes): a connection detected dead stays in the pool", c.Engine, c.Datagram, fc.ID, peer.QName(p), len(fw)-before)
				}
			}
		}
		mu.Lock()
		df := dialFails
		mu.Unlock()
		excusedByDialOnly := 0
		for _, cl := range calls {
			cl.dialFailsAfter = df
			// attempts: sightings on the wire + writes that were made to fail
			seen := w.Seen(cl.name)
			attempts := len(seen)
			freshFailed := false
			for _, fc := range env.Conns() {
				onThis := 0
				for _, p := range fc.FailedWrites() {
					if !c.Datagram && len(p) > 2 {
						p = p[2:]
					}
					if peer.QName(p) == cl.name {
						attempts++
						onThis++
						if !oldConn[fc.ID] {
							freshFailed = true
						}
					}
				}
				if onThis >= 2 {
					return hx.Failf("C08/retried-on-the-same-failed-connection", "engine=%s datagram=%v: the write of query %s failed on connection %d, and the query was then written to that same connection again (%d failed writes there) instead of another one", c.Engine, c.Datagram, cl.name, fc.ID, onThis)
				}
			}
			if c.Datagram {
				// udp retransmissions on the same connection are not further attempts
				distinct := map[int]bool{}
				for _, s := range seen {
					distinct[s.Conn] = true
				}
				attempts = attempts - len(seen) + len(distinct)
			}
			if attempts > maxAttempts {
				maxAttempts = attempts
			}
			if attempts > 4 {
				return hx.Failf("C08/too-many-attempts", "engine=%s: query %s was transmitted on %d connections", c.Engine, cl.name, attempts)
			}
			if attempts >= 2 {
				retried++
			}
			if cl.err == nil {
				if why := w.Book.Judge(*cl.resp, cl.id, cl.name); why != "" {
					return hx.Failf("C08/wrong-reply", "%s: %s", cl.name, why)
				}
				continue
			}
			if cl.err == context.DeadlineExceeded {
				ctx.Class("inconclusive:timeout")
				return nil
			}
			// a failure must be explained
			for _, s := range seen {
				if !oldConn[s.Conn] {
					// written on a connection that may have been opened for it, and that attempt did not produce the answer
					freshFailed = true
				}
			}
			dialErr := cl.dialFailsAfter > cl.dialFailsBefore
			if errors.Is(cl.err, transport.ErrLazyConnCannotReserveQueryExchanger) || errors.Is(cl.err, transport.ErrNewConnCannotReserveQueryExchanger) || errors.Is(cl.err, transport.ErrTDCClosed) {
				// the failing attempt never reached the wire (the dialled connection was already closed or full when the
				// queued query tried to use it); it cannot be attributed through the wire, so it is attributed to any
				// connection dialled during this burst
				for _, fc := range env.Conns() {
					if !oldConn[fc.ID] {
						freshFailed = true
					}
				}
			}
			if dialErr && !freshFailed && attempts == 0 {
				excusedByDialOnly++ // never reached the wire: only a failed dial can explain this failure
			}
			switch {
			case freshFailed, dialErr:
				failedFreshOrDial++
			case attempts >= 3: // a small bounded number of attempts all failed
			default:
				return hx.Failf("C08/reused-connection-failure-not-retried", "engine=%s datagram=%v: query %s failed with %q after %d attempt(s), all on connections that existed (in use or pooled) before the query was issued (sightings %v); a fresh connection to the server works, so it must have been retried", c.Engine, c.Datagram, cl.name, cl.err, attempts, connsOf(seen))
			}
		}
		// Every dial is started for exactly one query; queries that merely queued on a connection another query was
		// dialling are retried when that dial fails. With fewer than 3 failed dials nobody can have used up its
		// attempts on dials alone, so at most one query per failed dial may report the dial failure.
		if dfBurst := df - calls[0].dialFailsBefore; excusedByDialOnly > dfBurst && dfBurst < 3 {
			return hx.Failf("C08/joined-dialing-connection-failure-not-retried", "engine=%s datagram=%v: %d dial(s) failed during a burst of %d queries, but %d queries that never reached the wire reported failure: a query queued on a connection that was being dialled for another query must be retried when that dial fails", c.Engine, c.Datagram, dfBurst, n, excusedByDialOnly)
		}
	}
	ctx.Classf("engine=%s", c.Engine)
	if c.GateDials {
		ctx.Class("dials-gated")
	}
	if retried > 0 {
		ctx.Class("had-retry")
		ctx.Nontrivial(fmt.Sprintf("%v", c))
	}
	if failedFreshOrDial > 0 {
		ctx.Class("fresh-failure-reported")
	}
	if pooledUnused > 0 {
		ctx.Class("abandoned-dial-left-unused-connection")
	}
	ctx.Classf("max-attempts=%d", maxAttempts)
	ctx.Sample(c)
	return nil
}

func connsOf(s []peer.Seen) []int {
	var out []int
	for _, x := range s {
		out = append(out, x.Conn)
	}
	return out
}

func TestPropRetry(t *testing.T) { hx.Check(t, 6000, genCase, runCase) }

func TestReplay(t *testing.T) { hx.Replay(t, "TestPropRetry", 10, runCase) }
