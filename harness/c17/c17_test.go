// C17 — truncated UDP replies are retried over TCP.
// upstream.NewUpstream("udp://127.0.0.1:p") against harness wire-level UDP and TCP
// listeners on the same port.
package c17

import (
	"bytes"
	"context"
	"encoding/binary"
	"fmt"
	"io"
	"net"
	"sync"
	"testing"
	"time"

	"github.com/IrineSistiana/mosdns/v5/pkg/upstream"
	"pgregory.net/rapid"

	"verif/harness/hx"
	"verif/harness/peer"
	"verif/harness/poolmon"
)

func TestMain(m *testing.M) {
	poolmon.Install()
	hx.Main(m)
}

type beh struct {
	flags uint16
	size  int
	tcp   string // answer | close_after_accept | close_after_query | half_reply
}

type server struct {
	book *peer.Book
	udp  *net.UDPConn
	tcp  net.Listener // nil: nothing listens on TCP (connection refused)
	port int

	mu       sync.Mutex
	beh      map[string]beh
	udpSeen  map[string]int
	tcpSeen  map[string]int
	udpSent  map[string][]byte
	tcpToken map[string]string
	accepts  int
}

func newServer(withTCP bool) (*server, error) {
	for try := 0; try < 50; try++ {
		uc, err := net.ListenUDP("udp", &net.UDPAddr{IP: net.IPv4(127, 0, 0, 1)})
		if err != nil {
			return nil, err
		}
		port := uc.LocalAddr().(*net.UDPAddr).Port
		s := &server{book: peer.NewBook(), udp: uc, port: port, beh: map[string]beh{}, udpSeen: map[string]int{}, tcpSeen: map[string]int{}, udpSent: map[string][]byte{}, tcpToken: map[string]string{}}
		if withTCP {
			l, err := net.Listen("tcp", fmt.Sprintf("127.0.0.1:%d", port))
			if err != nil {
				uc.Close()
				continue
			}
			s.tcp = l
			go s.serveTCP()
		} else {
			// make sure nothing else listens there
			if c, err := net.DialTimeout("tcp", fmt.Sprintf("127.0.0.1:%d", port), time.Second); err == nil {
				c.Close()
				uc.Close()
				continue
			}
		}
		go s.serveUDP()
		return s, nil
	}
	return nil, fmt.Errorf("no port")
}

func (s *server) serveUDP() {
	buf := make([]byte, 65535)
	for {
		n, addr, err := s.udp.ReadFromUDP(buf)
		if err != nil {
			return
		}
		q := append([]byte(nil), buf[:n]...)
		name := peer.QName(q)
		s.mu.Lock()
		b, ok := s.beh[name]
		s.udpSeen[name]++
		first := s.udpSeen[name] == 1
		s.mu.Unlock()
		if !ok || !first {
			continue
		}
		// raw reply: wire id, drawn flag bits, qdcount 1, the question, padding up to the drawn size
		r := make([]byte, 0, b.size)
		r = append(r, q[0], q[1])
		r = binary.BigEndian.AppendUint16(r, b.flags)
		r = append(r, 0, 1, 0, 0, 0, 0, 0, 0)
		r = append(r, q[12:]...)
		for i := 0; len(r) < b.size; i++ {
			r = append(r, byte('a'+i%26))
		}
		if len(r) > b.size && b.size >= 12 {
			r = r[:b.size]
		}
		s.mu.Lock()
		s.udpSent[name] = append([]byte(nil), r...)
		s.mu.Unlock()
		s.udp.WriteToUDP(r, addr)
	}
}

func (s *server) serveTCP() {
	for {
		c, err := s.tcp.Accept()
		if err != nil {
			return
		}
		s.mu.Lock()
		s.accepts++
		s.mu.Unlock()
		go func() {
			defer c.Close()
			for {
				hdr := make([]byte, 2)
				if _, err := io.ReadFull(c, hdr); err != nil {
					return
				}
				q := make([]byte, binary.BigEndian.Uint16(hdr))
				if _, err := io.ReadFull(c, q); err != nil {
					return
				}
				name := peer.QName(q)
				s.mu.Lock()
				b := s.beh[name]
				s.tcpSeen[name]++
				s.mu.Unlock()
				switch b.tcp {
				case "close_after_query", "close_after_accept":
					return
				case "half_reply":
					r, _, _ := s.book.Reply(0, q, 0)
					fr := binary.BigEndian.AppendUint16(nil, uint16(len(r)))
					fr = append(fr, r...)
					c.Write(fr[:len(fr)/2])
					return
				default:
					r, tok, err := s.book.Reply(0, q, 0)
					if err != nil {
						return
					}
					s.mu.Lock()
					s.tcpToken[name] = tok
					s.mu.Unlock()
					fr := binary.BigEndian.AppendUint16(nil, uint16(len(r)))
					c.Write(append(fr, r...))
				}
			}
		}()
	}
}

var (
	setupOnce       sync.Once
	srvBoth, srvUDP *server
	upBoth, upUDP   upstream.Upstream
	setupErr        error
	serial          int
)

func setup() {
	srvBoth, setupErr = newServer(true)
	if setupErr != nil {
		return
	}
	srvUDP, setupErr = newServer(false)
	if setupErr != nil {
		return
	}
	upBoth, setupErr = upstream.NewUpstream(fmt.Sprintf("udp://127.0.0.1:%d", srvBoth.port), upstream.Opt{})
	if setupErr != nil {
		return
	}
	upUDP, setupErr = upstream.NewUpstream(fmt.Sprintf("127.0.0.1:%d", srvUDP.port), upstream.Opt{})
}

type Case struct {
	Flags uint16 `json:"flags"` // the 16 flag bits of the UDP reply header
	Size  int    `json:"size"`  // size of the UDP reply
	TCP   string `json:"tcp"`   // answer | refuse | close_after_query | half_reply
	ID    uint16 `json:"id"`
}

func genCase(t *rapid.T) Case {
	var c Case
	switch rapid.IntRange(0, 3).Draw(t, "fk") {
	case 0:
		c.Flags = uint16(rapid.IntRange(0, 65535).Draw(t, "flagsAny"))
	case 1: // TC alone or with neighbours
		c.Flags = 0x8000 | 0x0200 | uint16(rapid.SampledFrom([]int{0, 0x0400, 0x0100, 0x0080, 0x0003, 0x0002, 0x0005, 0x7800}).Draw(t, "tcPlus"))
	case 2: // TC clear with neighbouring bits set
		c.Flags = 0x8000 | uint16(rapid.SampledFrom([]int{0, 0x0400, 0x0100, 0x0500, 0x0080, 0x0003, 0x0040, 0x0020, 0x0010, 0x7800}).Draw(t, "noTc"))
	default:
		c.Flags = uint16(rapid.IntRange(0, 65535).Draw(t, "f2")) | 0x0200
	}
	c.Size = rapid.SampledFrom([]int{12, 13, 40, 100, 511, 512, 513, 1199, 1200, 1201, 1232, 4000, 4095}).Draw(t, "size")
	if rapid.Bool().Draw(t, "anySize") {
		c.Size = rapid.IntRange(12, 4095).Draw(t, "sizeAny")
	}
	c.TCP = rapid.SampledFrom([]string{"answer", "answer", "answer", "refuse", "close_after_query", "half_reply"}).Draw(t, "tcp")
	c.ID = uint16(rapid.IntRange(0, 65535).Draw(t, "id"))
	return c
}

func runCase(c Case, ctx *hx.Ctx) *hx.Failure {
	setupOnce.Do(setup)
	if setupErr != nil {
		return hx.Failf("C17/harness", "setup: %v", setupErr)
	}
	poolmon.Reset()
	srv, up := srvBoth, upBoth
	if c.TCP == "refuse" {
		srv, up = srvUDP, upUDP
	}
	serial++
	name := fmt.Sprintf("t%d-%d.c17.test.", serial, time.Now().UnixNano()%100000)
	srv.mu.Lock()
	srv.beh[name] = beh{flags: c.Flags, size: c.Size, tcp: c.TCP}
	acceptsBefore := srv.accepts
	srv.mu.Unlock()
	tc := c.Flags&0x0200 != 0

	cx, cancel := context.WithTimeout(context.Background(), 8*time.Second)
	defer cancel()
	q := peer.Query(c.ID, name, 1)
	qcopy := append([]byte(nil), q...)
	r, err := up.ExchangeContext(cx, q)
	if !bytes.Equal(q, qcopy) {
		return hx.Failf("C17/query-modified", "ExchangeContext modified the caller's query bytes")
	}
	srv.mu.Lock()
	udpSeen, tcpSeen, sent, tok, accepts := srv.udpSeen[name], srv.tcpSeen[name], srv.udpSent[name], srv.tcpToken[name], srv.accepts
	srv.mu.Unlock()
	if udpSeen == 0 {
		ctx.Class("inconclusive:udp-query-not-received")
		return nil
	}
	var got []byte
	if r != nil {
		got = append([]byte(nil), *r...)
	}
	if !tc {
		if err != nil {
			if cx.Err() != nil {
				ctx.Class("inconclusive:timeout")
				return nil
			}
			return hx.Failf("C17/untruncated-reply-failed", "UDP reply with flags %#04x (TC clear, %d bytes) was sent, exchange failed: %v", c.Flags, c.Size, err)
		}
		want := append([]byte(nil), sent...)
		binary.BigEndian.PutUint16(want, c.ID)
		if !bytes.Equal(got, want) {
			return hx.Failf("C17/untruncated-reply-altered", "UDP reply with flags %#04x (TC clear, %d bytes) was not returned as it is (got %d bytes, id %d)", c.Flags, len(sent), len(got), binary.BigEndian.Uint16(got))
		}
		if tcpSeen != 0 || accepts != acceptsBefore {
			return hx.Failf("C17/tcp-used-without-tc", "UDP reply with flags %#04x has TC clear, but the server saw %d TCP queries / %d new TCP connections", c.Flags, tcpSeen, accepts-acceptsBefore)
		}
	} else {
		truncatedReturned := err == nil && len(sent) >= 12 && len(got) == len(sent) && bytes.Equal(got[2:], sent[2:])
		if truncatedReturned {
			return hx.Failf("C17/truncated-reply-returned", "UDP reply with flags %#04x has TC set (tcp side: %s), but the truncated UDP reply itself was returned to the caller", c.Flags, c.TCP)
		}
		switch c.TCP {
		case "answer":
			if err != nil {
				if cx.Err() != nil {
					ctx.Class("inconclusive:timeout")
					return nil
				}
				return hx.Failf("C17/tcp-fallback-failed", "TC set (flags %#04x), TCP side answers, exchange failed: %v (tcp queries seen: %d)", c.Flags, err, tcpSeen)
			}
			if tcpSeen == 0 {
				return hx.Failf("C17/no-tcp-retry", "TC set (flags %#04x) but the TCP listener never received the query", c.Flags)
			}
			if why := srv.book.Judge(got, c.ID, name); why != "" {
				return hx.Failf("C17/wrong-reply", "TC set: %s", why)
			}
			if peer.Token(got) != tok {
				return hx.Failf("C17/wrong-reply", "TC set: returned token %q, the TCP server issued %q", peer.Token(got), tok)
			}
		default:
			if err == nil {
				return hx.Failf("C17/tcp-failure-masked", "TC set (flags %#04x) and the TCP side fails (%s), but the exchange returned a %d-byte reply instead of an error", c.Flags, c.TCP, len(got))
			}
			if c.TCP != "refuse" && tcpSeen == 0 {
				return hx.Failf("C17/no-tcp-retry", "TC set (flags %#04x) but the TCP listener never received the query (error: %v)", c.Flags, err)
			}
		}
	}
	// the reply must stay intact while the caller owns it
	if r != nil && !bytes.Equal(*r, got) {
		return hx.Failf("C17/reply-buffer-reused", "the returned reply changed while the caller owned it")
	}
	if pr := poolmon.Problems(); len(pr) > 0 {
		return hx.Failf("C17/double-release", "%v", pr)
	}
	ctx.Classf("tc=%v", tc)
	ctx.Classf("tcp=%s", c.TCP)
	if tc || c.Flags&0x0500 != 0 {
		ctx.Nontrivial(fmt.Sprintf("%v", c))
	}
	ctx.Sample(map[string]any{"udp_reply_flags": fmt.Sprintf("%#04x", c.Flags), "udp_reply_size": c.Size, "tcp_side": c.TCP, "tcp_queries_seen": tcpSeen, "error": fmt.Sprint(err)})
	return nil
}

func TestPropTruncated(t *testing.T) { hx.Check(t, 12000, genCase, runCase) }

func TestReplay(t *testing.T) { hx.Replay(t, "TestPropTruncated", 3, runCase) }
