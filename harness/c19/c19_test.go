// C19 — cache dumps reload faithfully; damaged dumps are harmless.
package c19

import (
	"bytes"
	"compress/gzip"
	"context"
	"encoding/binary"
	"fmt"
	"os"
	"path/filepath"
	"runtime"
	"sort"
	"strings"
	"testing"
	"time"

	"github.com/IrineSistiana/mosdns/v5/pkg/query_context"
	"github.com/miekg/dns"
	"pgregory.net/rapid"

	"verif/harness/cachex"
	"verif/harness/hx"
)

func TestMain(m *testing.M) { hx.Main(m) }

type E struct {
	TTLs  []uint32 `json:"ttls"`  // answer record TTLs (>= 2 records possible)
	Rcode int      `json:"rcode"` // 0 or 3
	Age   int64    `json:"age"`   // seconds; 0 = stored through the real store path right now
}

type Damage struct {
	Kind string `json:"kind"` // flip | blocklen | garbage | wrapgarbage
	Pos  int    `json:"pos"`
	Val  uint64 `json:"val"`
	Data []byte `json:"data,omitempty"`
}

type Case struct {
	Lazy    int      `json:"lazy_cache_ttl"`
	Entries []E      `json:"entries"`
	Cuts    []int    `json:"cuts"`    // truncation points as permille of the dump length, or negative = bytes from the end
	AllCuts bool     `json:"allcuts"` // every truncation point (small dumps)
	Damage  []Damage `json:"damage"`
	Mixed   bool     `json:"mixed_case"` // the queries spell the names in mixed case, the answers carry the question in lower case
	Pad     int      `json:"pad"`        // bytes of an extra TXT record in every answer (big entries: fewer than 128 of them fill half a block)
}

// per-case settings read by query() and answer(); cases run one after the other
var curMixed bool
var curPad int

func qname(i int) string { return fmt.Sprintf("e%d.c19.example.", i) }

// asked is the spelling used in queries
func asked(i int) string {
	if curMixed {
		return fmt.Sprintf("E%d.C19.eXample.", i)
	}
	return qname(i)
}

func query(i int, id uint16) *dns.Msg {
	m := new(dns.Msg)
	m.Id = id
	m.RecursionDesired = true
	m.Question = []dns.Question{{Name: asked(i), Qtype: dns.TypeA, Qclass: dns.ClassINET}}
	return m
}

func answer(i int, e E, q *dns.Msg) *dns.Msg {
	r := new(dns.Msg)
	r.SetReply(q)
	r.Rcode = e.Rcode
	r.Question[0].Name = qname(i) // (lower case, whatever the query's spelling)
	if curPad > 0 {
		var chunks []string
		for left := curPad; left > 0; left -= 250 {
			chunks = append(chunks, strings.Repeat("p", min(250, left)))
		}
		r.Extra = append(r.Extra, &dns.TXT{Hdr: dns.RR_Header{Name: "pad.c19.example.", Rrtype: dns.TypeTXT, Class: dns.ClassINET, Ttl: 86400}, Txt: chunks})
	}
	for k, ttl := range e.TTLs {
		rr := &dns.A{Hdr: dns.RR_Header{Name: qname(i), Rrtype: dns.TypeA, Class: dns.ClassINET, Ttl: ttl}, A: []byte{10, byte(i >> 8), byte(i), byte(k)}}
		if e.Rcode == 0 {
			r.Answer = append(r.Answer, rr)
		} else {
			r.Ns = append(r.Ns, rr)
		}
	}
	return r
}

func genCase(t *rapid.T) Case {
	var c Case
	c.Lazy = rapid.SampledFrom([]int{0, 0, 3600}).Draw(t, "lazy")
	n := rapid.SampledFrom([]int{0, 1, 2, 3, 5, 20, 127, 128, 129, 260, 400}).Draw(t, "n")
	for i := 0; i < n; i++ {
		var e E
		if rapid.IntRange(0, 5).Draw(t, "nx") == 0 {
			e.Rcode = 3
		}
		k := rapid.IntRange(1, 3).Draw(t, "k")
		for j := 0; j < k; j++ {
			e.TTLs = append(e.TTLs, uint32(rapid.SampledFrom([]int{5, 30, 60, 300, 3600, 86400}).Draw(t, "ttl")))
		}
		switch rapid.IntRange(0, 3).Draw(t, "ageKind") {
		case 0:
			e.Age = 0
		case 1:
			e.Age = int64(rapid.IntRange(1, 50).Draw(t, "ageSmall"))
		case 2:
			e.Age = int64(e.TTLs[0]) + int64(rapid.IntRange(-3, 3).Draw(t, "ageNear")) // about to expire / just expired
		case 3:
			e.Age = int64(rapid.IntRange(0, 4000).Draw(t, "ageAny"))
		}
		if e.Age < 0 {
			e.Age = 0
		}
		c.Entries = append(c.Entries, e)
	}
	c.Mixed = rapid.IntRange(0, 3).Draw(t, "mixed") == 0
	if n >= 100 && rapid.IntRange(0, 2).Draw(t, "big") == 0 {
		c.Pad = rapid.SampledFrom([]int{4200, 5000, 9000}).Draw(t, "pad")
	}
	c.AllCuts = n <= 5
	nc := rapid.IntRange(0, 40).Draw(t, "ncuts")
	for i := 0; i < nc; i++ {
		if rapid.Bool().Draw(t, "fromEnd") {
			c.Cuts = append(c.Cuts, -rapid.IntRange(1, 40).Draw(t, "end"))
		} else {
			c.Cuts = append(c.Cuts, rapid.IntRange(0, 999).Draw(t, "permille"))
		}
	}
	nd := rapid.IntRange(0, 6).Draw(t, "ndamage")
	for i := 0; i < nd; i++ {
		var d Damage
		d.Kind = rapid.SampledFrom([]string{"flip", "flip", "blocklen", "blocklen", "garbage", "wrapgarbage"}).Draw(t, "dkind")
		switch d.Kind {
		case "flip":
			d.Pos = rapid.IntRange(0, 1<<20).Draw(t, "pos")
			d.Val = uint64(rapid.IntRange(0, 7).Draw(t, "bit"))
		case "blocklen":
			d.Val = rapid.SampledFrom([]uint64{0, 1, 1 << 20, 1<<20 + 1, 1 << 26, 1 << 31, 1 << 40, 1<<63 - 1, 1 << 63, 1<<64 - 1}).Draw(t, "len")
			d.Pos = rapid.IntRange(0, 3).Draw(t, "which")
		default:
			d.Data = rapid.SliceOfN(rapid.Byte(), 0, 200).Draw(t, "bytes")
		}
		c.Damage = append(c.Damage, d)
	}
	return c
}

// ---------------------------------------------------------------- helpers

type served struct {
	ok   bool
	ttls []uint32
}

func ask(p *cachex.Plugin, i int) served {
	qc := query_context.NewContext(query(i, uint16(1000+i)))
	_ = p.Exec(qc, func(cx context.Context, q *query_context.Context) error {
		if _, bg := cx.Deadline(); bg { // lazy refresh: answer nothing, keep the entry as it is
			return nil
		}
		return nil
	})
	r := qc.R()
	if r == nil {
		return served{}
	}
	var s served
	s.ok = true
	for _, sec := range [][]dns.RR{r.Answer, r.Ns, r.Extra} {
		for _, rr := range sec {
			s.ttls = append(s.ttls, rr.Header().Ttl)
		}
	}
	return s
}

func entryMap(b []byte) (map[string]*cachex.Entry, error) {
	es, err := cachex.DecodeDump(b)
	if err != nil {
		return nil, err
	}
	m := map[string]*cachex.Entry{}
	for _, e := range es {
		m[string(e.GetKey())] = e
	}
	return m, nil
}

func sameEntry(a, b *cachex.Entry, withStored bool) string {
	switch {
	case !bytes.Equal(a.GetMsg(), b.GetMsg()):
		return "message bytes differ"
	case a.GetCacheExpirationTime() != b.GetCacheExpirationTime():
		return fmt.Sprintf("cache expiry %d vs %d", a.GetCacheExpirationTime(), b.GetCacheExpirationTime())
	case a.GetMsgExpirationTime() != b.GetMsgExpirationTime():
		return fmt.Sprintf("message expiry %d vs %d", a.GetMsgExpirationTime(), b.GetMsgExpirationTime())
	case withStored && a.GetMsgStoredTime() != b.GetMsgStoredTime():
		return fmt.Sprintf("stored time %d vs %d", a.GetMsgStoredTime(), b.GetMsgStoredTime())
	}
	return ""
}

func allocDuring(f func()) uint64 {
	var a, b runtime.MemStats
	runtime.ReadMemStats(&a)
	f()
	runtime.ReadMemStats(&b)
	return b.TotalAlloc - a.TotalAlloc
}

// ---------------------------------------------------------------- property

func runCase(c Case, ctx *hx.Ctx) *hx.Failure {
	curMixed, curPad = c.Mixed, c.Pad
	if c.Mixed {
		ctx.Class("mixed-case-queries")
	}
	if c.Pad > 0 {
		ctx.Class("big-entries")
	}
	// Build instance A: entries with age 0 go through the real store path of A itself;
	// aged entries are stored in a staging instance, shifted, and loaded into A.
	a := cachex.New(4096, c.Lazy)
	defer a.Close()
	staging := cachex.New(4096, c.Lazy)
	defer staging.Close()
	t0 := time.Now()
	for i, e := range c.Entries {
		p := a
		if e.Age > 0 {
			p = staging
		}
		qc := query_context.NewContext(query(i, 7))
		e := e
		i := i
		if err := p.Exec(qc, func(_ context.Context, q *query_context.Context) error {
			q.SetResponse(answer(i, e, q.Q()))
			return nil
		}); err != nil {
			return hx.Failf("C19/harness", "store: %v", err)
		}
	}
	t1 := time.Now()
	sd, err := staging.Dump()
	if err != nil {
		return hx.Failf("C19/harness", "staging dump: %v", err)
	}
	sm, err := entryMap(sd)
	if err != nil {
		return hx.Failf("C19/harness", "staging decode: %v", err)
	}
	storedAt := map[string]int64{} // key -> stored time we gave (aged entries only)
	loaded := map[string]*cachex.Entry{}
	var agedList []*cachex.Entry
	byName := map[string]*cachex.Entry{}
	for _, se := range sm {
		m := new(dns.Msg)
		if err := m.Unpack(se.GetMsg()); err != nil || len(m.Question) != 1 {
			return hx.Failf("C19/dump-unreadable", "staging entry message does not unpack: %v", err)
		}
		byName[m.Question[0].Name] = se
	}
	for i, e := range c.Entries {
		if e.Age == 0 {
			continue
		}
		se := byName[qname(i)]
		if se == nil {
			continue
		}
		k := se.GetKey()
		st := t0.Unix() - e.Age
		storedAt[string(k)] = st
		// expiry times are computed here from the documented lifetimes, not taken from the staging dump,
		// so a dump that writes wrong times cannot hide behind the injection route
		life := lifeOf(e)
		cacheLife := life
		if c.Lazy > 0 && e.Rcode == 0 {
			cacheLife = int64(c.Lazy)
		}
		ae := &cachex.Entry{Key: k, Msg: se.GetMsg(), MsgStoredTime: st, MsgExpirationTime: st + life, CacheExpirationTime: st + cacheLife}
		loaded[string(k)] = ae
		agedList = append(agedList, ae)
	}
	if len(agedList) > 0 {
		if code, body := a.Load(cachex.EncodeDump(agedList, 128)); code != 200 {
			return hx.Failf("C19/harness", "loading aged entries: %d %s", code, body)
		}
	}

	// Dump A
	d, err := a.Dump()
	if err != nil {
		return hx.Failf("C19/dump-fails", "dump: %v", err)
	}
	am, err := entryMap(d)
	if err != nil {
		return hx.Failf("C19/dump-unreadable", "the dump is not in the documented format: %v", err)
	}
	// every entry that was loaded while still alive as a cache entry must be in the instance
	// (stale-but-retained lazy entries included)
	for k, le := range loaded {
		if le.GetCacheExpirationTime() > time.Now().Unix()+2 && am[k] == nil {
			return hx.Failf("C19/live-entry-not-loaded", "an entry whose cache expiry lies %d s in the future (message expiry %d s) was not admitted by /load_dump", le.GetCacheExpirationTime()-time.Now().Unix(), le.GetMsgExpirationTime()-time.Now().Unix())
		}
	}

	// Reload into B
	b := cachex.New(4096, c.Lazy)
	defer b.Close()
	if code, body := b.Load(d); code != 200 {
		return hx.Failf("C19/intact-dump-rejected", "load of an intact dump failed: %d %s", code, body)
	}
	bd, err := b.Dump()
	if err != nil {
		return hx.Failf("C19/dump-fails", "dump of reloaded instance: %v", err)
	}
	bm, err := entryMap(bd)
	if err != nil {
		return hx.Failf("C19/dump-unreadable", "%v", err)
	}
	now := time.Now().Unix()
	for k, ea := range am {
		eb := bm[k]
		if eb == nil {
			if ea.GetCacheExpirationTime() <= now+1 {
				continue // expired in between
			}
			return hx.Failf("C19/entry-lost", "live entry (cache expiry in %d s) missing after reload", ea.GetCacheExpirationTime()-now)
		}
		if diff := sameEntry(ea, eb, true); diff != "" {
			return hx.Failf("C19/entry-changed", "entry differs after dump+load: %s", diff)
		}
	}
	for k := range bm {
		if am[k] == nil {
			return hx.Failf("C19/entry-invented", "reloaded instance has an entry the dump does not contain")
		}
	}
	// behaviour: B serves what A serves, same TTLs to the second
	nServed, nAged := 0, 0
	for i, e := range c.Entries {
		sa := ask(a, i)
		sb := ask(b, i)
		life := int64(e.TTLs[0])
		for _, t := range e.TTLs {
			if int64(t) < life {
				life = int64(t)
			}
		}
		if e.Rcode == 3 {
			life = 30
		}
		nearExpiry := e.Age >= life-2 && e.Age <= life+2
		if c.Lazy > 0 && e.Rcode == 0 {
			nearExpiry = nearExpiry || (e.Age >= int64(c.Lazy)-2 && e.Age <= int64(c.Lazy)+2)
		}
		if sa.ok != sb.ok && !nearExpiry {
			return hx.Failf("C19/served-differs", "entry %d (age %d s, ttls %v): original instance serves=%v, reloaded instance serves=%v", i, e.Age, e.TTLs, sa.ok, sb.ok)
		}
		if sa.ok && sb.ok {
			nServed++
			if e.Age > 0 {
				nAged++
			}
			if len(sa.ttls) != len(sb.ttls) {
				return hx.Failf("C19/served-differs", "entry %d: %d vs %d records", i, len(sa.ttls), len(sb.ttls))
			}
			for k := range sa.ttls {
				df := int64(sa.ttls[k]) - int64(sb.ttls[k])
				if (df > 1 || df < -1) && !nearExpiry {
					return hx.Failf("C19/ttl-after-reload", "entry %d (age %d s, stored TTLs %v): original instance serves TTLs %v, the instance loaded from its dump serves %v", i, e.Age, e.TTLs, sa.ttls, sb.ttls)
				}
			}
		}
	}

	// what was loaded must be dumped back unchanged; stored time must be in the dump
	for k, le := range loaded {
		if de := am[k]; de != nil {
			if diff := sameEntry(le, de, true); diff != "" {
				return hx.Failf("C19/dump-alters-entry", "an entry loaded through /load_dump comes back different from /dump: %s", diff)
			}
		}
	}
	for k, e := range am {
		if st, ok := storedAt[k]; ok {
			if e.GetMsgStoredTime() != st {
				return hx.Failf("C19/stored-time-lost", "entry loaded with stored time %d is dumped with stored time %d", st, e.GetMsgStoredTime())
			}
		} else if e.GetMsgStoredTime() < t0.Unix()-1 || e.GetMsgStoredTime() > t1.Unix()+1 {
			return hx.Failf("C19/stored-time-lost", "entry stored between %d and %d is dumped with stored time %d", t0.Unix(), t1.Unix(), e.GetMsgStoredTime())
		}
	}

	// Truncation = crash points of the periodic dump
	cuts := map[int]bool{}
	if c.AllCuts {
		for k := 0; k < len(d); k++ {
			cuts[k] = true
		}
	}
	for _, cp := range c.Cuts {
		k := cp * len(d) / 1000
		if cp < 0 {
			k = len(d) + cp
		}
		if k >= 0 && k < len(d) {
			cuts[k] = true
		}
	}
	var cutList []int
	for k := range cuts {
		cutList = append(cutList, k)
	}
	sort.Ints(cutList)
	for _, k := range cutList {
		p := cachex.New(4096, c.Lazy)
		code, body := p.Load(d[:k])
		if code == cachex.LoadHangs {
			return hx.Failf("C19/load-hangs", "loading a dump of %d bytes cut to %d bytes: %s", len(d), k, body)
		}
		pd, derr := p.Dump()
		p.Close()
		if code == 200 {
			return hx.Failf("C19/truncated-dump-accepted", "a dump of %d bytes cut to %d bytes was loaded without an error", len(d), k)
		}
		if derr != nil {
			return hx.Failf("C19/dump-fails", "%v", derr)
		}
		pm, err := entryMap(pd)
		if err != nil {
			return hx.Failf("C19/dump-unreadable", "%v", err)
		}
		for key, pe := range pm {
			ae := am[key]
			if ae == nil {
				return hx.Failf("C19/truncation-invents-entry", "cut at %d of %d: the loading instance holds an entry the intact dump does not contain", k, len(d))
			}
			if diff := sameEntry(ae, pe, true); diff != "" {
				return hx.Failf("C19/truncation-alters-entry", "cut at %d of %d: %s", k, len(d), diff)
			}
		}
	}

	// Damage
	for _, dm := range c.Damage {
		var in []byte
		switch dm.Kind {
		case "flip":
			if len(d) == 0 {
				continue
			}
			in = append([]byte(nil), d...)
			in[dm.Pos%len(in)] ^= 1 << dm.Val
		case "blocklen":
			// re-encode A's content with a lying block length
			var raw bytes.Buffer
			var l [8]byte
			binary.BigEndian.PutUint64(l[:], dm.Val)
			raw.Write(l[:])
			raw.Write(bytes.Repeat([]byte{0x0a, 0x00}, dm.Pos*50))
			in = gz(raw.Bytes())
		case "garbage":
			in = dm.Data
		case "wrapgarbage":
			in = gz(dm.Data)
		}
		p := cachex.New(4096, c.Lazy)
		var code int
		var body string
		alloc := allocDuring(func() { code, body = p.Load(in) })
		if code == cachex.LoadHangs {
			return hx.Failf("C19/load-hangs", "loading %d damaged bytes (%s, value %d): %s", len(in), dm.Kind, dm.Val, body)
		}
		pd, _ := p.Dump()
		p.Close()
		if len(in) <= 64<<10 && alloc > 48<<20 {
			return hx.Failf("C19/unbounded-allocation", "loading %d damaged bytes (%s, value %d) allocated %d MiB", len(in), dm.Kind, dm.Val, alloc>>20)
		}
		if dm.Kind == "blocklen" && dm.Val > 1<<20 && code == 200 {
			return hx.Failf("C19/oversize-block-accepted", "block length %d accepted", dm.Val)
		}
		if _, err := entryMap(pd); err != nil {
			return hx.Failf("C19/dump-unreadable", "after damaged load: %v", err)
		}
	}

	ctx.Classf("entries=%s", bucket(len(c.Entries)))
	if len(c.Entries) > 128 {
		ctx.Class("multi-block")
	}
	if nAged > 0 {
		ctx.Class("aged-entry-served")
	}
	ctx.Classf("cuts=%s", bucket(len(cutList)))
	if len(c.Entries) > 128 || nAged > 0 || len(cutList) > 0 {
		ctx.Nontrivial(fmt.Sprintf("%v", c))
	}
	ctx.Sample(map[string]any{"lazy": c.Lazy, "entries": len(c.Entries), "dump_bytes": len(d), "cuts_tried": len(cutList), "damage": len(c.Damage), "served_both": nServed, "aged_served": nAged})
	return nil
}

func lifeOf(e E) int64 {
	if e.Rcode == 3 {
		return 30
	}
	life := int64(e.TTLs[0])
	for _, t := range e.TTLs {
		if int64(t) < life {
			life = int64(t)
		}
	}
	return life
}

func gz(b []byte) []byte {
	var buf bytes.Buffer
	w := gzip.NewWriter(&buf)
	w.Name = cachex.DumpHeader
	w.Write(b)
	w.Close()
	return buf.Bytes()
}

func bucket(n int) string {
	switch {
	case n == 0:
		return "0"
	case n <= 5:
		return "1-5"
	case n <= 128:
		return "6-128"
	default:
		return ">128"
	}
}

func TestPropDump(t *testing.T) { hx.Check(t, 500, genCase, runCase) }

func TestReplay(t *testing.T) { hx.Replay(t, "TestPropDump", 2, runCase) }

// FuzzLoadDump: arbitrary bytes (raw, and wrapped in a valid gzip envelope so the
// fuzzer reaches the block parser) must be handled without panic, hang or huge allocation.
func FuzzLoadDump(f *testing.F) {
	f.Add([]byte{}, false)
	f.Add([]byte("mosdns"), true)
	f.Add(bytes.Repeat([]byte{0xff}, 16), true)
	f.Add([]byte{0, 0, 0, 0, 0, 0, 0, 2, 0x0a, 0x00}, true)
	f.Add([]byte{0, 0, 0, 0, 0, 0x10, 0, 1}, true)
	if dir := os.Getenv("HX_CORPUS"); dir != "" {
		files, _ := filepath.Glob(filepath.Join(dir, "*"))
		for _, fn := range files {
			if b, err := os.ReadFile(fn); err == nil {
				f.Add(b, false)
			}
		}
	}
	f.Fuzz(func(t *testing.T, data []byte, wrap bool) {
		in := data
		if wrap {
			in = gz(data)
		}
		p := cachex.New(1024, 0)
		defer p.Close()
		var code int
		var body string
		alloc := allocDuring(func() { code, body = p.Load(in) })
		if code == cachex.LoadHangs {
			t.Fatalf("load hangs: %s", body)
		}
		if len(in) <= 64<<10 && alloc > 64<<20 {
			t.Fatalf("loading %d bytes allocated %d MiB", len(in), alloc>>20)
		}
		if code != 200 && code != 400 {
			t.Fatalf("unexpected status %d", code)
		}
		if _, err := p.Dump(); err != nil {
			t.Fatalf("dump after load: %v", err)
		}
	})
}
