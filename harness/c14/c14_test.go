// C14 — forward returns the first good answer among the queried upstreams.
package c14

import (
	"bytes"
	"context"
	"errors"
	"fmt"
	"strings"
	"sync"
	"testing"
	"time"

	"github.com/IrineSistiana/mosdns/v5/pkg/pool"
	"github.com/IrineSistiana/mosdns/v5/pkg/query_context"
	"github.com/IrineSistiana/mosdns/v5/pkg/upstream"
	fastforward "github.com/IrineSistiana/mosdns/v5/plugin/executable/forward"
	"github.com/IrineSistiana/mosdns/v5/plugin/executable/sequence"
	"github.com/miekg/dns"
	"pgregory.net/rapid"

	"verif/harness/hx"
	"verif/harness/poolmon"
	"verif/harness/quiesce"
)

func TestMain(m *testing.M) {
	poolmon.Install()
	hx.Main(m)
}

type Up struct {
	Outcome string `json:"outcome"` // noerror | nxdomain | servfail | refused | rcode | error | garbage | never
	Prio    int    `json:"prio"`    // release order among the queried upstreams (ties: list order)
	Tag     string `json:"tag"`
}

type Case struct {
	Ups        []Up  `json:"ups"`
	Concurrent int   `json:"concurrent"`
	QuickAll   bool  `json:"quick_all"`  // no subset, but still through QuickConfigureExec (with an empty tag list = all upstreams)
	Subset     []int `json:"subset"`     // upstream indices selected by tag through QuickConfigureExec (nil = all, via Exec)
	CancelAt   int   `json:"cancel_at"`  // cancel the caller's context before the k-th release (-1 = never)
	Together   bool  `json:"together"`   // release all gates at once instead of one by one
	WaitNever  bool  `json:"wait_never"` // also wait until the helpers of never-answering upstreams have ended (5 s each)
}

func genCase(t *rapid.T) Case {
	var c Case
	n := rapid.IntRange(1, 6).Draw(t, "n")
	for i := 0; i < n; i++ {
		c.Ups = append(c.Ups, Up{
			Outcome: rapid.SampledFrom([]string{"noerror", "noerror", "nxdomain", "servfail", "refused", "rcode", "error", "garbage", "never"}).Draw(t, "outcome"),
			Prio:    rapid.IntRange(0, 5).Draw(t, "prio"),
			Tag:     fmt.Sprintf("u%d", i),
		})
	}
	c.Concurrent = rapid.SampledFrom([]int{-1, 0, 1, 2, 3, 4, 7}).Draw(t, "concurrent")
	if rapid.IntRange(0, 2).Draw(t, "useSubset") == 0 {
		k := rapid.IntRange(1, n).Draw(t, "k")
		c.Subset = rapid.SliceOfNDistinct(rapid.IntRange(0, n-1), k, k, rapid.ID[int]).Draw(t, "subset")
	}
	if c.Subset == nil {
		c.QuickAll = rapid.Bool().Draw(t, "quickAll")
	}
	c.CancelAt = -1
	if rapid.IntRange(0, 4).Draw(t, "cancel") == 0 {
		c.CancelAt = rapid.IntRange(0, 3).Draw(t, "cancelAt")
	}
	c.Together = rapid.IntRange(0, 5).Draw(t, "together") == 0
	// waiting for the helper of an upstream that never answers costs the plugin's 5 s per-upstream timeout
	rare := 599
	if hx.Thorough() {
		rare = 79
	}
	c.WaitNever = rapid.IntRange(0, rare).Draw(t, "waitNever") == rare/2+1 // (rapid favours the ends of a range)
	return c
}

// ---------------------------------------------------------------- scripted upstream

type entry struct {
	got    []byte
	m      []byte // the slice handed in (to re-check later)
	gate   chan struct{}
	ctx    context.Context
	retAt  time.Time
	intact bool
	ret    chan struct{} // closed when ExchangeContext has evaluated intact and is about to return
}

type fakeUp struct {
	idx     int
	outcome string
	mu      sync.Mutex
	entries []*entry
	arrived chan struct{}
}

func (u *fakeUp) ExchangeContext(ctx context.Context, m []byte) (*[]byte, error) {
	e := &entry{got: append([]byte(nil), m...), m: m, gate: make(chan struct{}), ctx: ctx, ret: make(chan struct{})}
	defer close(e.ret)
	u.mu.Lock()
	u.entries = append(u.entries, e)
	u.mu.Unlock()
	u.arrived <- struct{}{}
	if u.outcome == "never" {
		<-ctx.Done()
		e.intact = bytes.Equal(m, e.got)
		return nil, context.Cause(ctx)
	}
	select {
	case <-e.gate:
	case <-ctx.Done():
		e.intact = bytes.Equal(m, e.got)
		return nil, context.Cause(ctx)
	}
	e.intact = bytes.Equal(m, e.got) // the query buffer must be ours until we return
	q := new(dns.Msg)
	if err := q.Unpack(e.got); err != nil {
		return nil, err
	}
	r := new(dns.Msg)
	r.SetReply(q)
	r.Answer = []dns.RR{&dns.TXT{Hdr: dns.RR_Header{Name: q.Question[0].Name, Rrtype: dns.TypeTXT, Class: dns.ClassINET, Ttl: 60}, Txt: []string{fmt.Sprintf("from-u%d", u.idx)}}}
	switch u.outcome {
	case "noerror":
	case "nxdomain":
		r.Rcode = dns.RcodeNameError
	case "servfail":
		r.Rcode = dns.RcodeServerFailure
	case "refused":
		r.Rcode = dns.RcodeRefused
	case "rcode":
		r.Rcode = dns.RcodeNotImplemented
	case "error":
		return nil, errors.New("scripted upstream error")
	case "garbage":
		b := pool.GetBuf(20)
		copy(*b, []byte{1, 2, 3, 4, 5, 6, 7, 8, 9, 10, 0xff, 0xff, 0xff, 0xff, 0xc0, 0xc0, 0xc0, 0xc0, 0xc0, 0xc0})
		return b, nil
	}
	w, err := r.Pack()
	if err != nil {
		return nil, err
	}
	b := pool.GetBuf(len(w))
	copy(*b, w)
	return b, nil
}

func (u *fakeUp) Close() error { return nil }

func good(o string) bool { return o == "noerror" || o == "nxdomain" }
func hasReply(o string) bool {
	return o == "noerror" || o == "nxdomain" || o == "servfail" || o == "refused" || o == "rcode"
}

var rcodeOf = map[string]int{"noerror": 0, "nxdomain": 3, "servfail": 2, "refused": 5, "rcode": 4}

type queried struct {
	up *fakeUp
	e  *entry
}

func runCase(c Case, ctx *hx.Ctx) *hx.Failure {
	poolmon.Reset()
	arrived := make(chan struct{}, 64)
	var ups []upstream.Upstream
	var fus []*fakeUp
	var tags []string
	for i, u := range c.Ups {
		fu := &fakeUp{idx: i, outcome: u.Outcome, arrived: arrived}
		fus = append(fus, fu)
		ups = append(ups, fu)
		tags = append(tags, u.Tag)
	}
	f, err := fastforward.NewForwardWithUpstreams(c.Concurrent, ups, tags)
	if err != nil {
		return hx.Failf("C14/harness", "%v", err)
	}
	var exec sequence.Executable = f
	sel := make([]int, 0)
	if c.Subset != nil {
		var ts []string
		for _, i := range c.Subset {
			ts = append(ts, c.Ups[i].Tag)
			sel = append(sel, i)
		}
		v, err := f.QuickConfigureExec(joinSp(ts))
		if err != nil {
			return hx.Failf("C14/harness", "QuickConfigureExec: %v", err)
		}
		exec = v.(sequence.Executable)
	} else {
		for i := range c.Ups {
			sel = append(sel, i)
		}
		if c.QuickAll {
			v, err := f.QuickConfigureExec("")
			if err != nil {
				return hx.Failf("C14/harness", "QuickConfigureExec(\"\"): %v", err)
			}
			exec = v.(sequence.Executable)
		}
	}
	conc := c.Concurrent
	if conc <= 0 {
		conc = 1
	}
	if conc > 3 {
		conc = 3
	}

	q := new(dns.Msg)
	q.SetQuestion("q.c14.test.", dns.TypeA)
	q.Id = 4242
	qCtx := query_context.NewContext(q)
	wantWire, _ := qCtx.Q().Copy().Pack()

	cctx, cancel := context.WithCancel(context.Background())
	defer cancel()
	type execRes struct {
		err error
		at  time.Time
	}
	done := make(chan execRes, 1)
	go func() {
		err := exec.Exec(cctx, qCtx)
		done <- execRes{err, time.Now()}
	}()
	// wait until conc upstream calls have arrived
	for i := 0; i < conc; i++ {
		select {
		case <-arrived:
		case <-time.After(10 * time.Second):
			return hx.Failf("C14/not-enough-upstreams-queried", "concurrent=%d (effective %d), %d selected upstreams: only %d upstream calls started", c.Concurrent, conc, len(sel), i)
		}
	}
	select {
	case <-arrived:
		return hx.Failf("C14/too-many-upstreams-queried", "concurrent=%d (effective %d): more than %d upstream calls started", c.Concurrent, conc, conc)
	case <-time.After(300 * time.Microsecond):
	}
	// which upstreams were queried, how often
	var qs []queried
	counts := map[int]int{}
	for _, fu := range fus {
		fu.mu.Lock()
		for _, e := range fu.entries {
			qs = append(qs, queried{fu, e})
			counts[fu.idx]++
		}
		fu.mu.Unlock()
	}
	// cyclic window of conc consecutive positions of sel
	okWindow := false
	for start := range sel {
		want := map[int]int{}
		for k := 0; k < conc; k++ {
			want[sel[(start+k)%len(sel)]]++
		}
		same := len(want) == len(counts)
		for k, v := range want {
			if counts[k] != v {
				same = false
			}
		}
		if same {
			okWindow = true
			noteStart(len(sel), conc, start)
		}
	}
	if !okWindow {
		return hx.Failf("C14/wrong-upstream-selection", "selected upstreams %v, effective concurrency %d: queried (upstream -> times) %v is not a cyclic window of consecutive positions", sel, conc, counts)
	}
	for _, x := range qs {
		if !bytes.Equal(x.e.got, wantWire) {
			return hx.Failf("C14/query-altered", "upstream %d received bytes that differ from the packed query", x.up.idx)
		}
	}
	// release order: by priority, ties by list order (entries of the same upstream in entry order)
	order := make([]queried, 0, len(qs))
	for p := 0; p <= 5; p++ {
		for _, x := range qs {
			if c.Ups[x.up.idx].Prio == p {
				order = append(order, x)
			}
		}
	}
	// reference: replay the arrivals
	type expect struct {
		decided bool
		err     bool
		from    int
		rcode   int
	}
	var exp expect
	var res execRes
	returned := false
	arrivalsSeen := 0
	checkReturned := func(wait time.Duration) bool {
		if returned {
			return true
		}
		select {
		case res = <-done:
			returned = true
		case <-time.After(wait):
		}
		return returned
	}
	cancelled := false
	nReleasable := 0
	for _, x := range order {
		if x.up.outcome != "never" {
			nReleasable++
		}
	}
	k := 0
	for _, x := range order {
		if c.CancelAt == k && !cancelled && !exp.decided {
			cancel()
			cancelled = true
			if !checkReturned(10 * time.Second) {
				return hx.Failf("C14/outlives-context", "the caller's context was cancelled but Exec did not return within 10 s")
			}
		}
		k++
		if x.up.outcome == "never" {
			continue
		}
		if c.Together {
			close(x.e.gate)
			continue
		}
		if exp.decided || cancelled {
			close(x.e.gate) // let stragglers finish
			continue
		}
		close(x.e.gate)
		// wait until this upstream's result has been consumed (its helper goroutine ended) or Exec returned
		select {
		case <-x.e.ctx.Done():
		case <-time.After(10 * time.Second):
			return hx.Failf("C14/helper-stuck", "upstream %d returned but its helper goroutine did not finish within 10 s", x.up.idx)
		}
		arrivalsSeen++
		o := x.up.outcome
		last := arrivalsSeen == conc
		switch {
		case good(o), hasReply(o) && last:
			exp = expect{decided: true, from: x.up.idx, rcode: rcodeOf[o]}
		case last:
			exp = expect{decided: true, err: true}
		}
		if exp.decided {
			if !checkReturned(10 * time.Second) {
				return hx.Failf("C14/waits-for-straggler", "the result was determined by upstream %d (%s, arrival %d of %d) but Exec did not return", x.up.idx, o, arrivalsSeen, conc)
			}
		} else if checkReturned(2 * time.Millisecond) {
			return hx.Failf("C14/returned-too-early", "Exec returned (err=%v) after arrival %d of %d (%s from upstream %d) although the outcome was not determined yet", res.err, arrivalsSeen, conc, o, x.up.idx)
		}
	}
	if c.Together {
		// any order is possible: the result must be explainable by some order
		if nReleasable == conc {
			if !checkReturned(10 * time.Second) {
				return hx.Failf("C14/waits-for-straggler", "all %d upstreams answered but Exec did not return", conc)
			}
		} else {
			checkReturned(20 * time.Millisecond) // a silent upstream is among them: the call may legitimately still be waiting
		}
	}
	if !returned {
		// undetermined (a queried upstream never answers): the caller's context ends the call
		if !cancelled {
			cancel()
			cancelled = true
		}
		if !checkReturned(10 * time.Second) {
			return hx.Failf("C14/outlives-context", "the caller's context was cancelled but Exec did not return within 10 s")
		}
	}
	// judge the result
	r := qCtx.R()
	gotFrom, gotRcode := -1, -1
	if res.err == nil {
		if r == nil || len(r.Answer) != 1 {
			return hx.Failf("C14/no-error-no-reply", "Exec returned no error but left no usable reply in the query context (r=%v)", r)
		}
		fmt.Sscanf(r.Answer[0].(*dns.TXT).Txt[0], "from-u%d", &gotFrom)
		gotRcode = r.Rcode
		if r.Id != 4242 || len(r.Question) != 1 || r.Question[0].Name != "q.c14.test." {
			return hx.Failf("C14/reply-altered", "reply id/question differ: %v", r)
		}
	}
	switch {
	case c.Together:
		// allowed: a good reply of any released upstream; if none is good: the reply of any released upstream that has one, or an error
		anyGood := false
		for _, x := range order {
			if good(x.up.outcome) {
				anyGood = true
			}
		}
		if res.err == nil {
			o := c.Ups[gotFrom].Outcome
			if anyGood && !good(o) && nReleasable == conc {
				// a non-good reply can only win as the last finisher; with a good one present the good one must have been seen
				// earlier or later - later means the good one was the last and wins. So a non-good result is impossible.
				return hx.Failf("C14/bad-reply-masks-good", "released together: upstream %d (%s) won although a queried upstream answered NOERROR/NXDOMAIN", gotFrom, o)
			}
		} else if anyGood && !cancelled {
			return hx.Failf("C14/error-masks-good", "released together: Exec failed (%v) although a queried upstream answered NOERROR/NXDOMAIN", res.err)
		}
	case exp.decided && !(cancelled && c.CancelAt >= 0 && !exp.decided):
		if exp.err {
			if res.err == nil {
				return hx.Failf("C14/expected-error", "the last exchange to finish failed, but Exec returned the reply of upstream %d (rcode %d)", gotFrom, gotRcode)
			}
		} else {
			if res.err != nil {
				return hx.Failf("C14/good-answer-lost", "upstream %d's reply (rcode %d) determines the result, but Exec failed: %v", exp.from, exp.rcode, res.err)
			}
			if gotFrom != exp.from || gotRcode != exp.rcode {
				return hx.Failf("C14/wrong-winner", "expected the reply of upstream %d (rcode %d), got the reply of upstream %d (rcode %d); arrival order %v", exp.from, exp.rcode, gotFrom, gotRcode, idxs(order))
			}
		}
	default:
		// cancelled before the outcome was determined
		if res.err == nil {
			return hx.Failf("C14/reply-after-cancel", "the context was cancelled before any deciding reply, yet Exec returned the reply of upstream %d", gotFrom)
		}
	}
	// stragglers: let everything finish; buffers must have stayed intact while each upstream ran. The caller's context is
	// left alone until the helper goroutines have been looked at: they must end by themselves, not because the caller's
	// context happens to be cancelled afterwards.
	for _, x := range qs {
		if x.up.outcome != "never" {
			select {
			case <-x.e.gate:
			default:
				close(x.e.gate)
			}
		}
	}
	if c.WaitNever {
		for _, x := range qs {
			select {
			case <-x.e.ctx.Done():
			case <-time.After(8 * time.Second):
				return hx.Failf("C14/helper-outlives-timeout", "the helper goroutine for upstream %d is still running 8 s after the call", x.up.idx)
			}
		}
	}
	for _, x := range qs {
		if x.up.outcome == "never" && !c.WaitNever {
			continue
		}
		select {
		case <-x.e.ret:
			if !x.e.intact {
				return hx.Failf("C14/query-buffer-reused", "the query bytes handed to upstream %d changed while it was still running (shared or released buffer)", x.up.idx)
			}
		case <-time.After(5 * time.Second):
		}
	}
	if pr := poolmon.Problems(); len(pr) > 0 {
		return hx.Failf("C14/double-release", "%v", pr)
	}
	// helper goroutines: once its upstream has returned, a helper hands over its result or sees that the call is over,
	// and ends. A helper that stays blocked outside its upstream's exchange is stuck (helpers of silent upstreams of
	// this or an earlier case are still inside ExchangeContext and are not looked at here).
	stuckHelpers := func() []quiesce.G {
		var out []quiesce.G
		for _, g := range quiesce.With("forward.(*Forward).exchange.func") {
			if !strings.Contains(g.Stack, ").ExchangeContext(") && g.Parked() {
				out = append(out, g)
			}
		}
		return out
	}
	if left := stuckHelpers(); len(left) > 0 {
		deadline := time.Now().Add(3 * time.Second)
		for len(left) > 0 && time.Now().Before(deadline) {
			time.Sleep(2 * time.Millisecond)
			left = stuckHelpers()
		}
		if len(left) > 0 {
			return hx.Failf("C14/helper-goroutine-leak", "%d helper goroutine(s) of forward are still blocked 3 s after their upstream returned:\n%s", len(left), left[0].Stack)
		}
	}
	cancel()
	diff := false
	for _, x := range order {
		if x.up.outcome != order[0].up.outcome {
			diff = true
		}
	}
	ctx.Classf("conc=%d", conc)
	if c.Subset != nil {
		ctx.Class("tag-subset")
	}
	if cancelled {
		ctx.Class("cancelled")
	}
	if c.WaitNever {
		ctx.Class("waited-for-silent-upstream-helpers")
	}
	if conc > len(sel) {
		ctx.Class("conc>len(U)")
	}
	if len(order) >= 2 && diff && (exp.decided && !exp.err && exp.from != order[0].up.idx || !good(order[0].up.outcome)) {
		ctx.Nontrivial(fmt.Sprintf("%v", c))
	}
	ctx.Sample(map[string]any{"case": c, "queried": counts, "arrival_order": idxs(order), "error": fmt.Sprint(res.err), "winner": gotFrom})
	return nil
}

func idxs(o []queried) []int {
	var out []int
	for _, x := range o {
		out = append(out, x.up.idx)
	}
	return out
}

func joinSp(s []string) string {
	out := ""
	for i, x := range s {
		if i > 0 {
			out += " "
		}
		out += x
	}
	return out
}

var (
	startMu sync.Mutex
	starts  = map[string]map[int]int{}
)

func noteStart(n, conc, start int) {
	startMu.Lock()
	k := fmt.Sprintf("%d/%d", n, conc)
	if starts[k] == nil {
		starts[k] = map[int]int{}
	}
	starts[k][start]++
	startMu.Unlock()
}

func TestPropForward(t *testing.T) { hx.Check(t, 10000, genCase, runCase) }

// every start position is used over time (random start)
func TestStartPositions(t *testing.T) {
	man := hx.NewManual(t, false, "400 calls on 3 upstreams with concurrency 1: every start position must occur")
	man.Case("start-positions", func(ctx *hx.Ctx) *hx.Failure {
		seen := map[int]int{}
		for i := 0; i < 400; i++ {
			c := Case{Ups: []Up{{Outcome: "noerror", Tag: "u0"}, {Outcome: "noerror", Tag: "u1"}, {Outcome: "noerror", Tag: "u2"}}, Concurrent: 1, CancelAt: -1}
			var won int
			cx := &hx.Ctx{}
			if f := runCase(c, cx); f != nil {
				return f
			}
			_ = won
		}
		startMu.Lock()
		for k, v := range starts["3/1"] {
			seen[k] = v
		}
		startMu.Unlock()
		for p := 0; p < 3; p++ {
			if seen[p] == 0 {
				return hx.Failf("C14/start-position-never-used", "in 400 calls on 3 upstreams start position %d was never used: %v", p, seen)
			}
		}
		ctx.Nontrivial("start-a")
		ctx.Nontrivial("start-b")
		ctx.Sample(map[string]any{"start_histogram_3_upstreams": seen})
		return nil
	})
}

func TestReplay(t *testing.T) { hx.Replay(t, "TestPropForward", 5, runCase) }
