// C15 — EDNS0 is terminated, not leaked, between client and upstream.
package c15

import (
	"context"
	"fmt"
	"net"
	"net/netip"
	"strings"
	"sync"
	"testing"
	"time"

	"github.com/IrineSistiana/mosdns/v5/pkg/pool"
	"github.com/IrineSistiana/mosdns/v5/pkg/server"
	cacheplugin "github.com/IrineSistiana/mosdns/v5/plugin/executable/cache"
	"github.com/IrineSistiana/mosdns/v5/plugin/executable/ecs_handler"
	"github.com/IrineSistiana/mosdns/v5/plugin/executable/sequence"
	"github.com/miekg/dns"
	"pgregory.net/rapid"

	"verif/harness/cachex"
	"verif/harness/hand"
	"verif/harness/hx"
	"verif/harness/quiesce"
)

func TestMain(m *testing.M) { hx.Main(m) }

type OptSpec struct {
	Size    uint16   `json:"size"`
	DO      bool     `json:"do"`
	Version uint8    `json:"version"`
	Options []uint16 `json:"options"` // option codes; data is derived from code and side
}

type Query struct {
	ID   uint16   `json:"id"`
	Type uint16   `json:"type"`
	Opt  *OptSpec `json:"opt"`
	UDP  bool     `json:"udp"`
	Name int      `json:"name"` // 0 or 1
}

type Case struct {
	Chain        []string `json:"chain"`          // exec strings before the final forward
	After        string   `json:"after"`          // optional exec after the forward that replaces the answer locally
	UpOpt        *OptSpec `json:"up_opt"`         // OPT of the upstream reply (nil = none)
	UpExt        bool     `json:"up_ext"`         // upstream sets an extended rcode (BADVERS-like 16) - only with client OPT
	UpRecs       int      `json:"up_recs"`        // answer records (size drives UDP truncation)
	UpGlueBefore int      `json:"up_glue_before"` // additional records the upstream puts in front of its OPT
	UpGlueAfter  int      `json:"up_glue_after"`  // ... and behind it (RFC 6891 does not fix the position of the OPT)
	NoForward    bool     `json:"no_forward"`     // the chain ends without a forward: no response (REFUSED is synthesised) unless a local plugin answers
	Stale        bool     `json:"stale"`          // inject an expired-but-retained cache entry for query 0 first (needs lazy cache)
	Queries      []Query  `json:"queries"`
}

var chainPool = []string{"$cache", "$cachelazy", "ttl 5", "ttl 10-20", "$ecsF", "$ecsS", "ecs 198.51.100.77", "forward_edns0opt 10", "forward_edns0opt 8 12 65001", "forward_edns0opt 10 15"}

func genOpt(t *rapid.T, l string) *OptSpec {
	o := &OptSpec{Size: rapid.SampledFrom([]uint16{0, 512, 600, 1232, 4096}).Draw(t, l+"size"), DO: rapid.Bool().Draw(t, l+"do"), Version: uint8(rapid.SampledFrom([]int{0, 0, 0, 1}).Draw(t, l+"ver"))}
	n := rapid.IntRange(0, 4).Draw(t, l+"n")
	for i := 0; i < n; i++ {
		o.Options = append(o.Options, rapid.SampledFrom([]uint16{8, 10, 12, 15, 65001}).Draw(t, l+"code"))
	}
	return o
}

func genCase(t *rapid.T) Case {
	var c Case
	n := rapid.IntRange(0, 4).Draw(t, "nchain")
	c.Chain = rapid.SliceOfN(rapid.SampledFrom(chainPool), n, n).Draw(t, "chain")
	if rapid.IntRange(0, 3).Draw(t, "after") == 0 {
		c.After = rapid.SampledFrom([]string{"black_hole 192.0.2.66 2001:db8::66", "reject 3", "$hostsA"}).Draw(t, "afterK")
	}
	if rapid.IntRange(0, 3).Draw(t, "upopt") != 0 {
		c.UpOpt = genOpt(t, "up.")
	}
	if c.UpOpt != nil && rapid.IntRange(0, 2).Draw(t, "glue") == 0 {
		c.UpGlueBefore = rapid.IntRange(0, 2).Draw(t, "glueBefore")
		c.UpGlueAfter = rapid.IntRange(0, 2).Draw(t, "glueAfter")
	}
	c.NoForward = rapid.IntRange(0, 5).Draw(t, "noForward") == 0
	c.UpExt = rapid.IntRange(0, 9).Draw(t, "upext") == 0
	c.UpRecs = rapid.SampledFrom([]int{1, 1, 2, 8, 30}).Draw(t, "uprecs")
	nq := rapid.IntRange(1, 3).Draw(t, "nq")
	for i := 0; i < nq; i++ {
		q := Query{ID: uint16(rapid.IntRange(0, 65535).Draw(t, "id")), Type: rapid.SampledFrom([]uint16{1, 1, 28, 16}).Draw(t, "type"), UDP: rapid.Bool().Draw(t, "udp")}
		if i > 0 && rapid.IntRange(0, 2).Draw(t, "same") != 0 {
			q.Type, q.Name = c.Queries[0].Type, c.Queries[0].Name
		} else {
			q.Name = rapid.IntRange(0, 1).Draw(t, "name")
		}
		if rapid.IntRange(0, 3).Draw(t, "copt") != 0 {
			q.Opt = genOpt(t, "c.")
		}
		c.Queries = append(c.Queries, q)
	}
	hasLazy := false
	for _, e := range c.Chain {
		if e == "$cachelazy" {
			hasLazy = true
		}
	}
	if hasLazy && rapid.Bool().Draw(t, "stale") {
		c.Stale = true
	}
	return c
}

func optData(code uint16, side string) dns.EDNS0 {
	switch code {
	case 8:
		if side == "client" {
			return &dns.EDNS0_SUBNET{Code: 8, Family: 1, SourceNetmask: 24, Address: []byte{203, 0, 113, 0}}
		}
		return &dns.EDNS0_SUBNET{Code: 8, Family: 1, SourceNetmask: 24, SourceScope: 20, Address: []byte{203, 0, 113, 0}}
	case 10:
		if side == "client" {
			return &dns.EDNS0_COOKIE{Code: 10, Cookie: "c1c2c3c4c5c6c7c8"}
		}
		return &dns.EDNS0_COOKIE{Code: 10, Cookie: "c1c2c3c4c5c6c7c8a1a2a3a4a5a6a7a8"}
	case 12:
		return &dns.EDNS0_PADDING{Padding: make([]byte, 9)}
	case 15:
		return &dns.EDNS0_EDE{InfoCode: 3, ExtraText: side}
	default:
		return &dns.EDNS0_LOCAL{Code: code, Data: []byte(side)}
	}
}

func mkOpt(s *OptSpec, side string) *dns.OPT {
	o := new(dns.OPT)
	o.Hdr.Name, o.Hdr.Rrtype = ".", dns.TypeOPT
	o.SetUDPSize(s.Size)
	o.SetVersion(s.Version)
	if s.DO {
		o.SetDo()
	}
	for _, code := range s.Options {
		o.Option = append(o.Option, optData(code, side))
	}
	return o
}

// the wire form of an ECS option carries only the masked address
func mask24(a netip.Addr) []byte {
	b := a.As4()
	return []byte{b[0], b[1], b[2], 0}
}

func optKey(o dns.EDNS0) string { return fmt.Sprintf("%d:%s", o.Option(), o.String()) }

func opts(m *dns.Msg) []*dns.OPT {
	var out []*dns.OPT
	for _, s := range [][]dns.RR{m.Answer, m.Ns, m.Extra} {
		for _, rr := range s {
			if o, ok := rr.(*dns.OPT); ok {
				out = append(out, o)
			}
		}
	}
	return out
}

var qnames = []string{"www.c15.example.", "hosted.c15.example."}

func runCase(c Case, ctx *hx.Ctx) *hx.Failure {
	env, err := hand.NewEnv()
	if err != nil {
		return hx.Failf("C15/harness", "%v", err)
	}
	defer env.Close()
	caches := map[string]*cacheplugin.Cache{
		"cache":     cacheplugin.NewCache(&cacheplugin.Args{Size: 1024}, cacheplugin.Opts{}),
		"cachelazy": cacheplugin.NewCache(&cacheplugin.Args{Size: 1024, LazyCacheTTL: 3600}, cacheplugin.Opts{}),
	}
	for k, v := range caches {
		env.Plugins[k] = v
	}
	ef, _ := ecs_handler.NewHandler(ecs_handler.Args{Forward: true})
	es, _ := ecs_handler.NewHandler(ecs_handler.Args{Send: true})
	env.Plugins["ecsF"], env.Plugins["ecsS"] = ef, es

	var serial int
	var smu sync.Mutex
	upTokens := map[string]*dns.OPT{} // token of an upstream reply -> the OPT it carried (nil = none)
	env.Up.Respond = func(q *dns.Msg) (*dns.Msg, error) {
		smu.Lock()
		serial++
		tok := fmt.Sprintf("up-%d", serial)
		smu.Unlock()
		r := new(dns.Msg)
		r.SetReply(q)
		qq := q.Question[0]
		r.Answer = append(r.Answer, &dns.TXT{Hdr: dns.RR_Header{Name: qq.Name, Rrtype: dns.TypeTXT, Class: dns.ClassINET, Ttl: 300}, Txt: []string{tok}})
		for i := 1; i < c.UpRecs; i++ {
			r.Answer = append(r.Answer, &dns.TXT{Hdr: dns.RR_Header{Name: qq.Name, Rrtype: dns.TypeTXT, Class: dns.ClassINET, Ttl: 300}, Txt: []string{strings.Repeat("p", 60)}})
		}
		var uo *dns.OPT
		if c.UpOpt != nil {
			uo = mkOpt(c.UpOpt, "upstream")
			if c.UpExt {
				r.Rcode = 16 // BADVERS: needs the OPT to carry the upper bits
			}
			glue := func(i int) dns.RR {
				return &dns.A{Hdr: dns.RR_Header{Name: fmt.Sprintf("glue%d.c15.example.", i), Rrtype: dns.TypeA, Class: dns.ClassINET, Ttl: 300}, A: net.IPv4(192, 0, 2, byte(i+1))}
			}
			for i := 0; i < c.UpGlueBefore; i++ {
				r.Extra = append(r.Extra, glue(i))
			}
			r.Extra = append(r.Extra, uo)
			for i := 0; i < c.UpGlueAfter; i++ {
				r.Extra = append(r.Extra, glue(10+i))
			}
		}
		smu.Lock()
		upTokens[tok] = uo
		smu.Unlock()
		return r, nil
	}

	var rules []sequence.RuleArgs
	for _, e := range c.Chain {
		rules = append(rules, sequence.RuleArgs{Exec: e})
		if strings.HasPrefix(e, "$cache") {
			if c.Stale {
				rules = append(rules, sequence.RuleArgs{Matches: []string{"has_resp"}, Exec: "sleep 3"}) // lets a background refresh finish first
			}
		}
	}
	if !c.NoForward {
		rules = append(rules, sequence.RuleArgs{Matches: []string{"!has_resp"}, Exec: "$fwd"})
	}
	if c.After != "" {
		after := c.After
		if after == "$hostsA" {
			after = "black_hole 192.0.2.1"
		}
		rules = append(rules, sequence.RuleArgs{Exec: after})
	}
	if err := env.AddSequence("main", rules); err != nil {
		return hx.Failf("C15/program-rejected", "%v: %v", rules, err)
	}
	var caps []hand.Captured
	var mu sync.Mutex
	h, err := env.Handler("main", &caps, &mu)
	if err != nil {
		return hx.Failf("C15/harness", "%v", err)
	}

	buildQ := func(q Query) *dns.Msg {
		m := new(dns.Msg)
		m.Id = q.ID
		m.RecursionDesired = true
		m.Question = []dns.Question{{Name: qnames[q.Name], Qtype: q.Type, Qclass: dns.ClassINET}}
		if q.Opt != nil {
			m.Extra = append(m.Extra, mkOpt(q.Opt, "client"))
		}
		return m
	}
	if c.Stale {
		// an expired-but-retained entry for query 0 in the lazy cache
		q0 := buildQ(c.Queries[0])
		key, err := cachex.KeyOf(q0)
		if err != nil {
			return hx.Failf("C15/harness", "KeyOf: %v", err)
		}
		st := new(dns.Msg)
		st.SetReply(q0)
		st.Answer = []dns.RR{&dns.TXT{Hdr: dns.RR_Header{Name: q0.Question[0].Name, Rrtype: dns.TypeTXT, Class: dns.ClassINET, Ttl: 300}, Txt: []string{"stale-entry"}}}
		w, _ := st.Pack()
		now := time.Now()
		dump := cachex.EncodeDump([]*cachex.Entry{{Key: key, Msg: w, MsgStoredTime: now.Add(-400 * time.Second).Unix(), MsgExpirationTime: now.Add(-100 * time.Second).Unix(), CacheExpirationTime: now.Add(time.Hour).Unix()}}, 128)
		if code, body := cachex.Wrap(caches["cachelazy"]).Load(dump); code != 200 {
			return hx.Failf("C15/harness", "load_dump: %d %s", code, body)
		}
	}
	clientAddr := netip.MustParseAddr("192.0.2.200")
	nt := false
	for qi, q := range c.Queries {
		m := buildQ(q)
		meta := server.QueryMeta{FromUDP: q.UDP, ClientAddr: clientAddr}
		env.Up.Reset()
		smu.Lock()
		s0 := serial
		smu.Unlock()
		payload := h.Handle(context.Background(), m, meta, pool.PackBuffer)
		if payload == nil {
			if c.UpExt && q.Opt == nil {
				ctx.Class("excluded:extended-rcode-without-client-opt")
				ctx.Excluded(1)
				continue
			}
			return hx.Failf("C15/no-reply", "query %d got no reply; chain %v", qi, rules)
		}
		wire := append([]byte(nil), *payload...)
		pool.ReleaseBuf(payload)
		// let a background refresh (a singleflight goroutine of the lazy cache) finish, so that what it sends upstream is
		// judged against the query that started it and not against the next one
		if left := quiesce.WaitGone("singleflight.(*Group).doCall", 10*time.Second); len(left) > 0 {
			ctx.Class("inconclusive:background-refresh-still-running")
			return nil
		}
		where := fmt.Sprintf("query %d (type %d, client opt %+v, udp=%v); chain %v; upstream opt %+v", qi, q.Type, q.Opt, q.UDP, rules, c.UpOpt)

		// 1. what the upstream received
		for _, uq := range env.Up.Snapshot() {
			os := opts(uq)
			if len(os) != 1 {
				return hx.Failf("C15/upstream-query-opt-count", "the upstream received a query with %d OPT records\n%s", len(os), where)
			}
			allowed := map[string]bool{}
			for _, e := range c.Chain {
				f := strings.Fields(e)
				switch {
				case e == "$ecsF":
					if q.Opt != nil {
						for _, code := range q.Opt.Options {
							if code == 8 {
								allowed[optKey(optData(8, "client"))] = true
							}
						}
					}
				case e == "$ecsS":
					allowed[optKey(&dns.EDNS0_SUBNET{Code: 8, Family: 1, SourceNetmask: 24, Address: mask24(clientAddr)})] = true
				case f[0] == "ecs":
					allowed[optKey(&dns.EDNS0_SUBNET{Code: 8, Family: 1, SourceNetmask: 24, Address: mask24(netip.MustParseAddr(f[1]))})] = true
				case f[0] == "forward_edns0opt":
					if q.Opt != nil {
						for _, code := range q.Opt.Options {
							for _, fc := range f[1:] {
								if fmt.Sprint(code) == fc {
									allowed[optKey(optData(code, "client"))] = true
								}
							}
						}
					}
				}
			}
			for _, o := range os[0].Option {
				if !allowed[optKey(o)] {
					return hx.Failf("C15/client-option-leaked-upstream", "the upstream received EDNS option %s which no plugin in the chain forwards or generates\n%s", optKey(o), where)
				}
			}
			if q.Opt != nil && q.Opt.DO && os[0].Do() {
				// DO towards the upstream is not demanded either way; recorded only
				ctx.Class("note:do-forwarded")
			}
		}

		// 2. what the client gets
		r := new(dns.Msg)
		if err := r.Unpack(wire); err != nil {
			return hx.Failf("C15/reply-unparsable", "%v\n%s", err, where)
		}
		ros := opts(r)
		if q.Opt == nil {
			if len(ros) != 0 {
				return hx.Failf("C15/opt-sent-to-non-edns-client", "the client sent no OPT but the reply carries %d\n%s", len(ros), where)
			}
		} else {
			if len(ros) != 1 {
				return hx.Failf("C15/reply-opt-count", "the client sent an OPT, the reply carries %d OPT records\n%s", len(ros), where)
			}
			ro := ros[0]
			if ro.Do() != q.Opt.DO {
				return hx.Failf("C15/do-not-mirrored", "client DO=%v, reply DO=%v\n%s", q.Opt.DO, ro.Do(), where)
			}
			if ro.Version() != 0 {
				return hx.Failf("C15/opt-altered", "reply OPT has version %d\n%s", ro.Version(), where)
			}
			// which upstream reply is the final answer? (token in the first answer record)
			var src *dns.OPT
			if len(r.Answer) > 0 {
				if t, ok := r.Answer[0].(*dns.TXT); ok && len(t.Txt) == 1 {
					smu.Lock()
					src = upTokens[t.Txt[0]]
					smu.Unlock()
				}
			}
			mu.Lock()
			capd := caps[len(caps)-1]
			mu.Unlock()
			// the answer served comes from an upstream exchange of this very query (not from cache, not local)?
			fromUpstreamNow := false
			if capd.Resp != nil && len(capd.Resp.Answer) > 0 {
				if t, ok := capd.Resp.Answer[0].(*dns.TXT); ok && len(t.Txt) == 1 {
					var n int
					if _, err := fmt.Sscanf(t.Txt[0], "up-%d", &n); err == nil && n > s0 {
						fromUpstreamNow = true
					}
				}
			}
			allowed := map[string]bool{}
			if src != nil && fromUpstreamNow {
				for _, e := range c.Chain {
					f := strings.Fields(e)
					switch {
					case e == "$ecsF":
						hasClientECS := false
						for _, code := range q.Opt.Options {
							if code == 8 {
								hasClientECS = true
							}
						}
						if hasClientECS {
							for _, o := range src.Option {
								if o.Option() == 8 {
									allowed[optKey(o)] = true
								}
							}
						}
					case f[0] == "forward_edns0opt":
						for _, o := range src.Option {
							for _, fc := range f[1:] {
								if fmt.Sprint(o.Option()) == fc {
									allowed[optKey(o)] = true
								}
							}
						}
					}
				}
			}
			for _, o := range ro.Option {
				if !allowed[optKey(o)] {
					return hx.Failf("C15/upstream-option-leaked-to-client", "the reply carries EDNS option %s which no plugin forwarded from the OPT of the answer actually served (answer from upstream in this query: %v)\n%s", optKey(o), fromUpstreamNow, where)
				}
			}
			if len(ro.Option) > 0 || (c.UpOpt != nil && len(c.UpOpt.Options) > 0 && len(q.Opt.Options) > 0) {
				nt = true
			}
		}
		if r.Truncated || qi > 0 {
			nt = true
		}
	}
	// 3. cached answers never contain an OPT
	for name, cp := range caches {
		d, err := cachex.Wrap(cp).Dump()
		if err != nil {
			return hx.Failf("C15/harness", "dump: %v", err)
		}
		es, err := cachex.DecodeDump(d)
		if err != nil {
			return hx.Failf("C15/harness", "decode: %v", err)
		}
		for _, e := range es {
			m := new(dns.Msg)
			if err := m.Unpack(e.GetMsg()); err != nil {
				return hx.Failf("C15/harness", "cached msg: %v", err)
			}
			if len(opts(m)) != 0 {
				return hx.Failf("C15/opt-in-cache", "an entry of %s contains an OPT record", name)
			}
		}
	}
	ctx.Classf("chain=%d", len(c.Chain))
	if c.Stale {
		ctx.Class("stale-injected")
	}
	if c.After != "" {
		ctx.Class("local-answer-after-forward")
	}
	if nt && len(c.Chain) >= 1 {
		ctx.Nontrivial(fmt.Sprintf("%v", c))
	}
	ctx.Sample(map[string]any{"chain": rules, "upstream_opt": c.UpOpt, "queries": c.Queries})
	return nil
}

func TestPropEDNS(t *testing.T) { hx.Check(t, 16000, genCase, runCase) }

func TestReplay(t *testing.T) { hx.Replay(t, "TestPropEDNS", 5, runCase) }
