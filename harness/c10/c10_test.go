// C10 — cached answers are isolated from every caller's mutations.
// Sequences of store / hit / stale-inject / concurrent burst, interleaved with
// adversarial in-place mutation of every message the cache handed out or was handed.
// Built with -race in both tiers.
package c10

import (
	"bytes"
	"context"
	"fmt"
	"sync"
	"testing"
	"time"

	"github.com/IrineSistiana/mosdns/v5/pkg/query_context"
	"github.com/miekg/dns"
	"pgregory.net/rapid"

	"verif/harness/cachex"
	"verif/harness/dnsgen"
	"verif/harness/hx"
	"verif/harness/quiesce"
)

func TestMain(m *testing.M) { hx.Main(m) }

type Op struct {
	Kind   string   `json:"kind"`             // ask | mutate | stale | burst
	Q      int      `json:"q"`                // question index
	Target int      `json:"target,omitempty"` // mutate: index into the list of messages seen so far (mod len)
	Muts   []string `json:"muts,omitempty"`   // mutate/burst: which mutations
	N      int      `json:"n,omitempty"`      // burst: goroutines
}

type Case struct {
	Lazy    bool     `json:"lazy"`
	Names   []string `json:"names"`
	Types   []uint16 `json:"types"`
	Answers [][]byte `json:"answers"` // pristine packed answer per question
	Ops     []Op     `json:"ops"`
}

var allMuts = []string{"id", "flags", "qname", "rrname", "ttl", "rdata", "append", "remove", "opt", "truncate"}

func mutate(m *dns.Msg, how string) {
	if m == nil {
		return
	}
	secs := []*[]dns.RR{&m.Answer, &m.Ns, &m.Extra}
	switch how {
	case "id":
		m.Id ^= 0x5a5a
	case "flags":
		m.Rcode = dns.RcodeRefused
		m.Authoritative = !m.Authoritative
		m.AuthenticatedData = !m.AuthenticatedData
		m.RecursionAvailable = !m.RecursionAvailable
	case "qname":
		for i := range m.Question {
			m.Question[i].Name = "mutated.question."
			m.Question[i].Qtype ^= 0x0101
			m.Question[i].Qclass = 255
		}
	case "rrname":
		for _, s := range secs {
			for _, rr := range *s {
				rr.Header().Name = "mutated.owner."
			}
		}
	case "ttl":
		for _, s := range secs {
			for _, rr := range *s {
				rr.Header().Ttl = 7
			}
		}
	case "rdata":
		for _, s := range secs {
			for _, rr := range *s {
				switch v := rr.(type) {
				case *dns.A:
					for i := range v.A {
						v.A[i] ^= 0xff // in place: shared backing arrays show
					}
				case *dns.AAAA:
					for i := range v.AAAA {
						v.AAAA[i] ^= 0xff
					}
				case *dns.TXT:
					for i := range v.Txt {
						v.Txt[i] = "MUTATED"
					}
				case *dns.CNAME:
					v.Target = "mutated.target."
				case *dns.MX:
					v.Mx = "mutated.mx."
					v.Preference++
				case *dns.SOA:
					v.Ns = "mutated.ns."
					v.Serial++
				case *dns.SRV:
					v.Target = "mutated.srv."
					v.Port++
				case *dns.RFC3597:
					v.Rdata = "ffff"
				}
			}
		}
	case "append":
		extra := &dns.TXT{Hdr: dns.RR_Header{Name: "appended.", Rrtype: dns.TypeTXT, Class: dns.ClassINET, Ttl: 9}, Txt: []string{"appended"}}
		m.Answer = append(m.Answer, extra)
		m.Ns = append(m.Ns, dns.Copy(extra))
		m.Extra = append(m.Extra, dns.Copy(extra))
	case "remove": // in-place removal of the first record (shifts the backing array, like popOpt does)
		for _, s := range secs {
			if n := len(*s); n > 0 {
				copy(*s, (*s)[1:])
				(*s)[n-1] = nil
				*s = (*s)[:n-1]
			}
		}
	case "opt":
		o := new(dns.OPT)
		o.Hdr.Name, o.Hdr.Rrtype = ".", dns.TypeOPT
		o.SetUDPSize(4096)
		o.SetDo()
		m.Extra = append(m.Extra, o)
	case "truncate":
		for _, s := range secs {
			for i := range *s {
				(*s)[i] = nil
			}
			*s = (*s)[:0]
		}
		m.Truncated = true
	}
}

// ---------------------------------------------------------------- generator

func genAnswer(t *rapid.T, name string, qtype uint16, l string) []byte {
	m := new(dns.Msg)
	m.Id = 1
	m.Response = true
	m.RecursionDesired = true
	m.RecursionAvailable = rapid.Bool().Draw(t, l+"ra")
	m.AuthenticatedData = rapid.Bool().Draw(t, l+"ad")
	m.Question = []dns.Question{{Name: name, Qtype: qtype, Qclass: dns.ClassINET}}
	// kinds of cacheable answers: positive; NXDOMAIN with/without SOA (kept 30 s); bare SERVFAIL (kept 5 s);
	// NODATA with SOA. (A NOERROR answer without any record has no TTL and is not stored.)
	kind := rapid.SampledFrom([]string{"pos", "pos", "pos", "pos", "pos", "nx-soa", "nx-bare", "servfail-bare", "nodata-soa"}).Draw(t, l+"kind")
	soa := func() dns.RR {
		return &dns.SOA{Hdr: dns.RR_Header{Name: "example.", Rrtype: dns.TypeSOA, Class: dns.ClassINET, Ttl: uint32(rapid.IntRange(100, 100000).Draw(t, l+"soattl"))},
			Ns: "ns.example.", Mbox: "root.example.", Serial: 7, Refresh: 3600, Retry: 600, Expire: 86400, Minttl: 300}
	}
	if kind != "pos" {
		switch kind {
		case "nx-soa":
			m.Rcode = dns.RcodeNameError
			m.Ns = []dns.RR{soa()}
		case "nx-bare":
			m.Rcode = dns.RcodeNameError
		case "servfail-bare":
			m.Rcode = dns.RcodeServerFailure
		case "nodata-soa":
			m.Ns = []dns.RR{soa()}
		}
		w, err := m.Pack()
		if err != nil {
			t.Skip("unpackable generated answer: " + err.Error())
		}
		return w
	}
	na := rapid.IntRange(1, 4).Draw(t, l+"na")
	for i := 0; i < na; i++ {
		m.Answer = append(m.Answer, dnsgen.GenRR(t, name, uint32(rapid.IntRange(100, 100000).Draw(t, l+"ttl")), fmt.Sprintf("%san%d", l, i)))
	}
	nn := rapid.IntRange(0, 2).Draw(t, l+"nn")
	for i := 0; i < nn; i++ {
		m.Ns = append(m.Ns, dnsgen.GenRR(t, name, uint32(rapid.IntRange(100, 100000).Draw(t, l+"nttl")), fmt.Sprintf("%sns%d", l, i)))
	}
	ne := rapid.IntRange(0, 2).Draw(t, l+"ne")
	for i := 0; i < ne; i++ {
		m.Extra = append(m.Extra, dnsgen.GenRR(t, name, uint32(rapid.IntRange(100, 100000).Draw(t, l+"ettl")), fmt.Sprintf("%sex%d", l, i)))
	}
	w, err := m.Pack()
	if err != nil {
		t.Skip("unpackable generated answer: " + err.Error())
	}
	// canonical fixpoint: what the cache would see after unpack
	m2 := new(dns.Msg)
	if err := m2.Unpack(w); err != nil {
		t.Skip("generated answer does not unpack")
	}
	w2, err := m2.Pack()
	if err != nil || !bytes.Equal(w, w2) {
		t.Skip("generated answer is not a pack/unpack fixpoint")
	}
	return w
}

func genCase(t *rapid.T) Case {
	var c Case
	c.Lazy = rapid.Bool().Draw(t, "lazy")
	nq := rapid.IntRange(1, 3).Draw(t, "nq")
	for i := 0; i < nq; i++ {
		name := dnsgen.NameFromStrings(fmt.Sprintf("q%d", i), "example").String()
		ty := rapid.SampledFrom([]uint16{dns.TypeA, dns.TypeAAAA, dns.TypeTXT, dns.TypeMX}).Draw(t, "qtype")
		c.Names = append(c.Names, name)
		c.Types = append(c.Types, ty)
		c.Answers = append(c.Answers, genAnswer(t, name, ty, fmt.Sprintf("a%d.", i)))
	}
	nops := rapid.IntRange(2, 14).Draw(t, "nops")
	for i := 0; i < nops; i++ {
		op := Op{Q: rapid.IntRange(0, nq-1).Draw(t, "q")}
		switch rapid.IntRange(0, 9).Draw(t, "opkind") {
		case 0, 1, 2, 3:
			op.Kind = "ask"
		case 4, 5, 6, 7:
			op.Kind = "mutate"
			op.Target = rapid.IntRange(0, 63).Draw(t, "target")
			op.Muts = rapid.SliceOfNDistinct(rapid.SampledFrom(allMuts), 1, 4, rapid.ID[string]).Draw(t, "muts")
		case 8:
			op.Kind = "stale"
		case 9:
			op.Kind = "burst"
			op.N = rapid.IntRange(2, 6).Draw(t, "n")
			op.Muts = rapid.SliceOfNDistinct(rapid.SampledFrom(allMuts), 1, 4, rapid.ID[string]).Draw(t, "bmuts")
		}
		c.Ops = append(c.Ops, op)
	}
	return c
}

// ---------------------------------------------------------------- runner

type run struct {
	c        Case
	p        *cachex.Plugin
	mu       sync.Mutex
	seen     []*dns.Msg // every message handed to or out of the cache (foreground)
	bgSeen   []*dns.Msg // messages produced for background (lazy) refreshes; mutable once the refresh has finished
	nextID   uint16
	storedT0 []time.Time // earliest possible store time per question (zero = never stored)
	bg       sync.WaitGroup
}

func unpack(w []byte) *dns.Msg {
	m := new(dns.Msg)
	if err := m.Unpack(w); err != nil {
		panic(err)
	}
	return m
}

// ask returns the response left in the query context, and whether next was reached in the foreground.
func (r *run) ask(q int, id uint16) (*dns.Msg, bool, error) {
	m := new(dns.Msg)
	m.Id = id
	m.RecursionDesired = true
	m.Question = []dns.Question{{Name: r.c.Names[q], Qtype: r.c.Types[q], Qclass: dns.ClassINET}}
	qc := query_context.NewContext(m)
	reached := false
	err := r.p.Exec(qc, func(ctx context.Context, c *query_context.Context) error {
		_, background := ctx.Deadline() // lazy refresh runs with its own 5 s context
		if background {
			a := unpack(r.c.Answers[q])
			a.Id = c.Q().Id
			r.mu.Lock()
			r.bgSeen = append(r.bgSeen, a)
			r.mu.Unlock()
			c.SetResponse(a)
			return nil
		}
		if c.R() != nil {
			return nil
		}
		reached = true
		a := unpack(r.c.Answers[q])
		a.Id = c.Q().Id
		r.mu.Lock()
		r.seen = append(r.seen, a)
		r.mu.Unlock()
		c.SetResponse(a)
		return nil
	})
	return qc.R(), reached, err
}

// same checks resp against the pristine answer of q: identical up to ID (= want id) and TTLs.
func (r *run) same(q int, resp *dns.Msg, id uint16, t0 time.Time) *hx.Failure {
	if resp == nil {
		return hx.Failf("C10/no-response", "question %d: no response in the query context", q)
	}
	if resp.Id != id {
		return hx.Failf("C10/hit-id", "question %d: response carries ID %d, the asking query has ID %d", q, resp.Id, id)
	}
	want := unpack(r.c.Answers[q])
	got := resp.Copy()
	got.Id = want.Id
	elapsed := uint32(time.Since(t0)/time.Second) + 1
	ws := [][]dns.RR{want.Answer, want.Ns, want.Extra}
	gs := [][]dns.RR{got.Answer, got.Ns, got.Extra}
	allFive := true
	for i := range ws {
		if len(ws[i]) != len(gs[i]) {
			return hx.Failf("C10/content-changed", "question %d: section %d has %d records, pristine answer has %d\n got: %v\nwant: %v", q, i, len(gs[i]), len(ws[i]), resp, want)
		}
		for j := range ws[i] {
			if gs[i][j] == nil {
				return hx.Failf("C10/content-changed", "question %d: nil record in served answer", q)
			}
			if gs[i][j].Header().Ttl != 5 {
				allFive = false
			}
		}
	}
	for i := range ws {
		for j := range ws[i] {
			wt, gt := ws[i][j].Header().Ttl, gs[i][j].Header().Ttl
			ok := gt <= wt && gt+elapsed >= wt && gt >= 1
			if !ok && !(r.c.Lazy && allFive) {
				return hx.Failf("C10/ttl-changed", "question %d: record TTL %d served, pristine TTL %d, at most %d s elapsed (lazy=%v)\n got: %v", q, gt, wt, elapsed, r.c.Lazy, resp)
			}
			gs[i][j].Header().Ttl = wt
		}
	}
	gw, err := got.Pack()
	if err != nil {
		return hx.Failf("C10/content-changed", "question %d: served answer does not pack: %v\n%v", q, err, resp)
	}
	if !bytes.Equal(gw, r.c.Answers[q]) {
		return hx.Failf("C10/content-changed", "question %d: served answer differs from the pristine answer stored\n got: %v\nwant: %v", q, got, want)
	}
	return nil
}

func (r *run) id() uint16 {
	r.nextID += 257
	return r.nextID
}

func runCase(c Case, ctx *hx.Ctx) *hx.Failure {
	r := &run{c: c, storedT0: make([]time.Time, len(c.Names))}
	lazy := 0
	if c.Lazy {
		lazy = 3600
	}
	r.p = cachex.New(1024, lazy)
	defer r.p.Close()
	hits, mutBeforeHit, stale, bursts := 0, false, 0, 0
	bgMutable := 0
	mutated := make([]bool, len(c.Names)) // a mutation happened after the question was stored
	anyMut := false
	for _, op := range c.Ops {
		switch op.Kind {
		case "ask":
			id := r.id()
			t0 := time.Now()
			resp, reached, err := r.ask(op.Q, id)
			if err != nil {
				return hx.Failf("C10/harness", "Exec: %v", err)
			}
			if reached {
				if !r.storedT0[op.Q].IsZero() && time.Since(r.storedT0[op.Q]) < 2*time.Second {
					// stored before, kept >= 5 s (TTL >= 100 s; NXDOMAIN 30 s; SERVFAIL 5 s), 3 keys in a 1024 cache: nothing allows a miss
					// Not a violation of C10 (a miss shares nothing), but a run without hits says nothing about isolation:
					// counted, and a run whose cases are all like this ends as inconclusive (vacuous) in the driver.
					ctx.Class("miss-although-stored")
				}
				if r.storedT0[op.Q].IsZero() {
					r.storedT0[op.Q] = t0
				}
			} else {
				hits++
				if anyMut {
					mutBeforeHit = true
				}
				st := r.storedT0[op.Q]
				if st.IsZero() {
					st = t0
				}
				if f := r.same(op.Q, resp, id, st); f != nil {
					return f
				}
				r.mu.Lock()
				r.seen = append(r.seen, resp)
				r.mu.Unlock()
			}
		case "mutate":
			// the message a lazy refresh got from downstream is "the originally stored message" of that refresh: once the
			// refresh goroutine is gone it is fair game too
			r.mu.Lock()
			pendingBg := len(r.bgSeen)
			r.mu.Unlock()
			if gone := pendingBg > 0 && len(quiesce.WaitGone("singleflight", 2*time.Second)) == 0 && len(quiesce.WaitGone("doLazyUpdate", time.Second)) == 0; gone {
				// seeing the goroutine gone is no happens-before edge for the race detector; taking the store's shard locks
				// (a dump ranges over every shard) after the refresh released them is one
				if _, err := r.p.Dump(); err != nil {
					return hx.Failf("C10/harness", "dump: %v", err)
				}
				r.mu.Lock()
				if len(r.bgSeen) > 0 {
					bgMutable += len(r.bgSeen)
					r.seen = append(r.seen, r.bgSeen...)
					r.bgSeen = nil
				}
				r.mu.Unlock()
			}
			r.mu.Lock()
			if len(r.seen) > 0 {
				m := r.seen[op.Target%len(r.seen)]
				for _, how := range op.Muts {
					mutate(m, how)
				}
				anyMut = true
				for i := range mutated {
					mutated[i] = true
				}
			}
			r.mu.Unlock()
		case "stale":
			// inject an entry whose message expired 10 s ago but which the cache still holds
			q := new(dns.Msg)
			q.RecursionDesired = true
			q.Question = []dns.Question{{Name: c.Names[op.Q], Qtype: c.Types[op.Q], Qclass: dns.ClassINET}}
			key, err := cachex.KeyOf(q)
			if err != nil {
				return hx.Failf("C10/harness", "KeyOf: %v", err)
			}
			now := time.Now()
			e := &cachex.Entry{Key: key, Msg: c.Answers[op.Q], CacheExpirationTime: now.Add(time.Hour).Unix(), MsgExpirationTime: now.Add(-10 * time.Second).Unix(), MsgStoredTime: now.Add(-500 * time.Second).Unix()}
			if code, body := r.p.Load(cachex.EncodeDump([]*cachex.Entry{e}, 128)); code != 200 {
				return hx.Failf("C10/harness", "load_dump: %d %s", code, body)
			}
			stale++
			id := r.id()
			resp, reached, err := r.ask(op.Q, id)
			if err != nil {
				return hx.Failf("C10/harness", "Exec: %v", err)
			}
			if !reached { // lazy hit (or, with lazy off, never: then next is reached)
				hits++
				if !c.Lazy {
					return hx.Failf("C10/harness", "expired entry served although lazy caching is off (C05's business, reported here only as a harness anomaly)")
				}
				if f := r.same(op.Q, resp, id, now.Add(-500*time.Second)); f != nil {
					return f
				}
				r.mu.Lock()
				r.seen = append(r.seen, resp)
				r.mu.Unlock()
			}
			r.storedT0[op.Q] = now.Add(-500 * time.Second)
		case "burst":
			if r.storedT0[op.Q].IsZero() {
				if _, _, err := r.ask(op.Q, r.id()); err != nil {
					return hx.Failf("C10/harness", "Exec: %v", err)
				}
				r.storedT0[op.Q] = time.Now().Add(-time.Second)
			}
			bursts++
			var wg sync.WaitGroup
			fails := make([]*hx.Failure, op.N)
			ids := make([]uint16, op.N)
			for i := range ids {
				ids[i] = r.id()
			}
			for i := 0; i < op.N; i++ {
				wg.Add(1)
				go func(i int) {
					defer wg.Done()
					resp, reached, err := r.ask(op.Q, ids[i])
					if err != nil {
						fails[i] = hx.Failf("C10/harness", "Exec: %v", err)
						return
					}
					if !reached {
						if f := r.same(op.Q, resp, ids[i], r.storedT0[op.Q]); f != nil {
							fails[i] = f
							return
						}
					}
					for _, how := range op.Muts {
						mutate(resp, how)
					}
				}(i)
			}
			if done, hang, detail := hx.WaitBounded(&wg, 30*time.Second, "c10.runCase", nil); !done {
				if hang {
					return hx.Failf("C10/query-never-returns", "a burst of %d concurrent queries through the cache has not finished after 30 s; stuck in the cache:\n%s", op.N, detail)
				}
				ctx.Class("inconclusive:burst-slow")
				wg.Wait()
				return nil
			}
			anyMut = true
			for _, f := range fails {
				if f != nil {
					return f
				}
			}
		}
	}
	// closing pass: every stored question is still served pristine
	for q := range c.Names {
		if r.storedT0[q].IsZero() {
			continue
		}
		id := r.id()
		resp, reached, err := r.ask(q, id)
		if err != nil {
			return hx.Failf("C10/harness", "Exec: %v", err)
		}
		if !reached {
			hits++
			if anyMut {
				mutBeforeHit = true
			}
			if f := r.same(q, resp, id, r.storedT0[q]); f != nil {
				return f
			}
		}
	}
	ctx.Classf("lazy=%v", c.Lazy)
	if bgMutable > 0 {
		ctx.Class("refresh-message-exposed-to-mutation")
	}
	if stale > 0 {
		ctx.Class("stale-injected")
	}
	if bursts > 0 {
		ctx.Class("concurrent-burst")
	}
	if hits == 0 {
		ctx.Class("no-hit")
	}
	if mutBeforeHit {
		ctx.Class("mutation-precedes-hit")
		ctx.Nontrivial(fmt.Sprintf("%v|%x|%v", c.Lazy, c.Answers, c.Ops))
	}
	ctx.Sample(map[string]any{"lazy": c.Lazy, "questions": c.Names, "ops": c.Ops, "hits": hits})
	return nil
}

func TestPropIsolation(t *testing.T) { hx.Check(t, 6000, genCase, runCase) }

func TestReplay(t *testing.T) { hx.Replay(t, "TestPropIsolation", 20, runCase) }
