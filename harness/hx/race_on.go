//go:build race

package hx

const raceEnabled = true
