//go:build !race

package hx

const raceEnabled = false
