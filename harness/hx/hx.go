// Package hx is the glue between rapid properties and the /verif driver:
// seed plumbing, case counting, non-triviality accounting, samples, failure
// records (which double as library-free replay files) and known findings.
package hx

import (
	"encoding/json"
	"flag"
	"fmt"
	"hash/fnv"
	"os"
	"path/filepath"
	"runtime/debug"
	"sort"
	"strconv"
	"strings"
	"sync"
	"testing"
	"time"

	"pgregory.net/rapid"

	"verif/harness/quiesce"
)

// Failure is what a case runner returns when the oracle rejects the case.
type Failure struct {
	Sig string // stable signature, e.g. "C04/type-high-byte-ignored"
	Msg string // human readable
	// Optional: record this (smaller) case under this test name instead of the
	// enumerated one, so that the replay file is executable by a Replay handler.
	Case any
	Test string
}

// As attaches a replayable case to the failure.
func (f *Failure) As(test string, c any) *Failure { f.Test, f.Case = test, c; return f }

func Failf(sig, format string, args ...any) *Failure {
	return &Failure{Sig: sig, Msg: fmt.Sprintf(format, args...)}
}

func (f *Failure) Error() string { return f.Sig + ": " + f.Msg }

// Ctx is handed to every case run; it collects what the evidence reports.
type Ctx struct {
	classes    []string
	nontrivial []string
	sample     any
	excluded   int
	Replay     bool // true when running from a replay file
	Log        func(format string, args ...any)
}

// Class labels the case (generator distribution histogram).
func (c *Ctx) Class(name string) { c.classes = append(c.classes, name) }

// Classf is Class with formatting.
func (c *Ctx) Classf(format string, args ...any) { c.Class(fmt.Sprintf(format, args...)) }

// Nontrivial marks the case as non-trivial under the property's stated rule;
// key canonically identifies the case (distinct keys are counted).
func (c *Ctx) Nontrivial(key string) { c.nontrivial = append(c.nontrivial, key) }

// Sample offers a written-out form of the case for the evidence file.
func (c *Ctx) Sample(v any) { c.sample = v }

// Excluded counts sub-cases that were not judged (documented exclusions).
func (c *Ctx) Excluded(n int) { c.excluded += n }

type testStats struct {
	Requested  int            `json:"requested"`
	Cases      int            `json:"cases"`
	Classes    map[string]int `json:"classes"`
	Nontrivial []uint64       `json:"nontrivial"`
	Samples    []any          `json:"samples"`
	NTSamples  []any          `json:"nt_samples"`
	Excluded   int            `json:"excluded"`
	Exhaustive bool           `json:"exhaustive,omitempty"`
	Note       string         `json:"note,omitempty"`
	Short      bool           `json:"short,omitempty"`
	nt         map[uint64]struct{}
}

var (
	mu    sync.Mutex
	stats = map[string]*testStats{}
)

func getStats(name string) *testStats {
	s := stats[name]
	if s == nil {
		s = &testStats{Classes: map[string]int{}, nt: map[uint64]struct{}{}}
		stats[name] = s
	}
	return s
}

func h64(s string) uint64 {
	h := fnv.New64a()
	h.Write([]byte(s))
	return h.Sum64()
}

// Env
func envInt(k string, d int) int {
	if v := os.Getenv(k); v != "" {
		if n, err := strconv.Atoi(v); err == nil {
			return n
		}
	}
	return d
}

// Tier returns "quick" or "thorough".
func Tier() string {
	if os.Getenv("HX_TIER") == "thorough" {
		return "thorough"
	}
	return "quick"
}

func Thorough() bool { return Tier() == "thorough" }

// Scale is the case-count multiplier of the tier (quick 1).
func Scale() int { return envInt("HX_SCALE", 1) }

// Shards / Shard: the driver runs several processes of the same binary.
func Shards() int { return max(1, envInt("HX_SHARDS", 1)) }
func Shard() int  { return envInt("HX_SHARD", 0) }

// Seed for a test: a pure function of the driver's seed, the shard and the test name.
func Seed(name string) uint64 {
	base := uint64(envInt("HX_SEED", 1))
	s := h64(fmt.Sprintf("%d/%d/%s", base, Shard(), name))
	if s == 0 {
		s = 1
	}
	return s
}

func (s *testStats) absorb(c *Ctx) {
	s.Cases++
	for _, cl := range c.classes {
		s.Classes[cl]++
	}
	s.Excluded += c.excluded
	isNT := false
	for _, k := range c.nontrivial {
		h := h64(k)
		if _, ok := s.nt[h]; !ok {
			s.nt[h] = struct{}{}
			isNT = true
		}
	}
	if c.sample != nil {
		if isNT && len(s.NTSamples) < 3 {
			s.NTSamples = append(s.NTSamples, c.sample)
		} else if len(s.Samples) < 2 || (s.Cases%997 == 0 && len(s.Samples) < 4) {
			s.Samples = append(s.Samples, c.sample)
		}
	}
}

type failRecord struct {
	Property string          `json:"property"`
	Pkg      string          `json:"pkg"`
	Test     string          `json:"test"`
	Sig      string          `json:"signature"`
	Msg      string          `json:"message"`
	Seed     uint64          `json:"rapid_seed"`
	Race     bool            `json:"race"`
	Case     json.RawMessage `json:"case"`
}

func writeFail(test string, sig, msg string, seed uint64, c any) {
	dir := os.Getenv("HX_FAILDIR")
	if dir == "" {
		return
	}
	cj, err := json.Marshal(c)
	if err != nil {
		cj = []byte(fmt.Sprintf("%q", fmt.Sprintf("unserialisable case: %v", err)))
	}
	rec := failRecord{Property: os.Getenv("HX_PROPERTY"), Pkg: os.Getenv("HX_PKG"), Test: test, Sig: sig, Msg: msg, Seed: seed, Case: cj, Race: raceEnabled}
	b, _ := json.MarshalIndent(rec, "", " ")
	os.MkdirAll(dir, 0o755)
	name := filepath.Join(dir, fmt.Sprintf("%s.shard%d.json", strings.ReplaceAll(test, "/", "_"), Shard()))
	os.WriteFile(name, b, 0o644)
}

// Check runs a rapid property: gen draws a JSON-serialisable case, run executes
// it against the real code and judges it. baseChecks is the quick-tier number of
// cases over all shards.
func Check[C any](t *testing.T, baseChecks int, gen func(*rapid.T) C, run func(C, *Ctx) *Failure) {
	t.Helper()
	name := t.Name()
	if os.Getenv("HX_REPLAY") != "" {
		t.Skip("replay mode")
	}
	n := baseChecks * Scale() / Shards()
	if n < 1 {
		n = 1
	}
	seed := Seed(name)
	flag.Set("rapid.checks", strconv.Itoa(n))
	flag.Set("rapid.seed", strconv.FormatUint(seed, 10))
	flag.Set("rapid.nofailfile", "true")
	st0 := os.Getenv("HX_SHRINKTIME")
	if st0 == "" {
		st0 = "20s"
	}
	flag.Set("rapid.shrinktime", st0)
	mu.Lock()
	st := getStats(name)
	st.Requested += n
	mu.Unlock()
	// Shrinking re-executes the case; when a failing execution costs seconds (hangs that run into a bound), rapid's
	// own time limit is only looked at between passes. After the budget, candidates are no longer executed: the last
	// case that was seen failing keeps failing (its verdict was observed), every other candidate counts as passing.
	budget := 30 * time.Second
	if v, err := time.ParseDuration(os.Getenv("HX_SHRINKBUDGET")); err == nil {
		budget = v
	}
	var firstFailAt time.Time
	var lastFailCase, lastFailText string
	// A run in which most cases end inconclusive (the harness could not even bring the code under test into the
	// situation it wants to judge) says nothing; it is cut short instead of spending every case's time budget.
	executed, inconclusive, bail := 0, 0, false
	rapid.Check(t, func(rt *rapid.T) {
		if bail {
			return
		}
		c := gen(rt)
		if !firstFailAt.IsZero() && time.Since(firstFailAt) > budget {
			cj, _ := json.Marshal(c)
			if string(cj) == lastFailCase {
				rt.Fatalf("%s", lastFailText)
			}
			return
		}
		ctx := &Ctx{Log: rt.Logf}
		var f *Failure
		func() {
			defer func() {
				if r := recover(); r != nil {
					f = Failf(os.Getenv("HX_PROPERTY")+"/panic", "panic: %v\n%s", r, debug.Stack())
				}
			}()
			f = run(c, ctx)
		}()
		if f != nil {
			writeFail(name, f.Sig, f.Msg, seed, c)
			cj, _ := json.Marshal(c)
			if firstFailAt.IsZero() {
				firstFailAt = time.Now()
			}
			lastFailCase = string(cj)
			lastFailText = fmt.Sprintf("FAIL sig=%s\n%s\ncase=%s", f.Sig, f.Msg, cj)
			rt.Fatalf("%s", lastFailText)
		}
		mu.Lock()
		st.absorb(ctx)
		mu.Unlock()
		executed++
		for _, cl := range ctx.classes {
			if strings.HasPrefix(cl, "inconclusive:") {
				inconclusive++
				break
			}
		}
		if executed >= 16 && inconclusive*2 > executed {
			bail = true
		}
	})
	if bail {
		t.Errorf("INCONCLUSIVE: %d of the first %d cases of %s ended inconclusive; the run was cut short", inconclusive, executed, name)
	}
	mu.Lock()
	if st.Cases < st.Requested {
		st.Short = true
	}
	mu.Unlock()
}

// A bounded wait that ran out is not a verdict by itself (the machine may be busy). HangVerdict decides: it looks at
// the goroutines whose stack contains marker twice, 3 s apart. Only if such a goroutine shows the same call chain both
// times, no progress was counted in between, and its innermost frame outside the Go runtime and standard library is
// mosdns code (blocked or spinning there) is it a hang of the code under test. Anything else is "inconclusive".
func HangVerdict(marker string, progress func() int64) (bool, string) {
	var p0 int64
	if progress != nil {
		p0 = progress()
	}
	d0 := quiesce.With(marker)
	time.Sleep(3 * time.Second)
	d1 := quiesce.With(marker)
	if progress != nil && progress() != p0 {
		return false, "slow but progressing"
	}
	chain := func(g quiesce.G) (string, string) {
		var fns []string
		inner := ""
		for _, l := range strings.Split(g.Stack, "\n")[1:] {
			if l == "" || l[0] == '\t' || strings.HasPrefix(l, "created by ") {
				continue
			}
			fn := l
			if k := strings.LastIndexByte(fn, '('); k > 0 {
				fn = fn[:k]
			}
			fns = append(fns, fn)
			if inner == "" && (strings.Contains(fn, "IrineSistiana/mosdns") || strings.HasPrefix(fn, "verif/harness/")) {
				inner = fn
			}
		}
		return strings.Join(fns, "<"), inner
	}
	before := map[string]string{}
	for _, g := range d0 {
		c, _ := chain(g)
		before[g.ID] = c
	}
	for _, g := range d1 {
		c, inner := chain(g)
		if before[g.ID] == c && strings.Contains(inner, "IrineSistiana/mosdns") {
			lines := strings.Split(g.Stack, "\n")
			if len(lines) > 13 {
				lines = lines[:13]
			}
			return true, strings.Join(lines, "\n")
		}
	}
	return false, "no goroutine is stuck inside mosdns code"
}

// WaitBounded waits for wg at most d. done=false means it gave up; hang=true means HangVerdict found the code under
// test stuck (detail has the stack), hang=false that the wait is merely inconclusive.
func WaitBounded(wg *sync.WaitGroup, d time.Duration, marker string, progress func() int64) (done, hang bool, detail string) {
	ch := make(chan struct{})
	go func() { wg.Wait(); close(ch) }()
	select {
	case <-ch:
		return true, false, ""
	case <-time.After(d):
	}
	hang, detail = HangVerdict(marker, progress)
	return false, hang, detail
}

// CallBounded runs f in a goroutine and waits at most d for it; results as for WaitBounded.
func CallBounded(d time.Duration, f func()) (done, hang bool, detail string) {
	ch := make(chan struct{})
	var pv string
	go func() {
		defer close(ch)
		defer func() {
			if r := recover(); r != nil {
				pv = fmt.Sprintf("%v\n%s", r, debug.Stack())
			}
		}()
		boundedCall(f)
	}()
	select {
	case <-ch:
		if pv != "" {
			panic(pv) // re-raised in the caller's goroutine, where the property runner turns it into a failure
		}
		return true, false, ""
	case <-time.After(d):
	}
	hang, detail = HangVerdict("hx.boundedCall", nil)
	return false, hang, detail
}

//go:noinline
func boundedCall(f func()) { f() }

// Manual is for enumerations that are not driven by rapid (exhaustive axes).
// fn reports each evaluated case through the returned recorder.
type Manual struct {
	t    *testing.T
	st   *testStats
	name string
}

func NewManual(t *testing.T, exhaustive bool, note string) *Manual {
	if os.Getenv("HX_REPLAY") != "" {
		t.Skip("replay mode")
	}
	if int(h64(t.Name())%uint64(Shards())) != Shard() {
		t.Skip("enumeration runs in another shard")
	}
	mu.Lock()
	defer mu.Unlock()
	st := getStats(t.Name())
	st.Exhaustive = exhaustive
	st.Note = note
	return &Manual{t: t, st: st, name: t.Name()}
}

// Case runs one enumerated case.
func (m *Manual) Case(c any, run func(*Ctx) *Failure) {
	ctx := &Ctx{Log: m.t.Logf}
	var f *Failure
	func() {
		defer func() {
			if r := recover(); r != nil {
				f = Failf(os.Getenv("HX_PROPERTY")+"/panic", "panic: %v\n%s", r, debug.Stack())
			}
		}()
		f = run(ctx)
	}()
	if f != nil {
		name := m.name
		if f.Case != nil {
			c, name = f.Case, f.Test
		}
		writeFail(name, f.Sig, f.Msg, 0, c)
		cj, _ := json.Marshal(c)
		m.t.Fatalf("FAIL sig=%s\n%s\ncase=%s", f.Sig, f.Msg, cj)
	}
	mu.Lock()
	m.st.Requested++
	m.st.absorb(ctx)
	mu.Unlock()
}

// Replay runs the case stored in $HX_REPLAY (if it belongs to test `name`)
// through run, bypassing rapid. Repeats `reps` times for sampled schedules.
func Replay[C any](t *testing.T, name string, reps int, run func(C, *Ctx) *Failure) {
	p := os.Getenv("HX_REPLAY")
	if p == "" {
		t.Skip("no replay file")
	}
	b, err := os.ReadFile(p)
	if err != nil {
		t.Fatalf("replay: %v", err)
	}
	var rec failRecord
	if err := json.Unmarshal(b, &rec); err != nil {
		t.Fatalf("replay: %v", err)
	}
	if rec.Test != name {
		t.Skip("replay file is for " + rec.Test)
	}
	var c C
	if err := json.Unmarshal(rec.Case, &c); err != nil {
		t.Fatalf("replay: case does not decode: %v", err)
	}
	for i := 0; i < reps; i++ {
		ctx := &Ctx{Replay: true, Log: t.Logf}
		var f *Failure
		func() {
			defer func() {
				if r := recover(); r != nil {
					f = Failf(rec.Property+"/panic", "panic: %v\n%s", r, debug.Stack())
				}
			}()
			f = run(c, ctx)
		}()
		if f != nil {
			fmt.Printf("REPLAY-FAIL sig=%s rep=%d\n%s\n", f.Sig, i, f.Msg)
			t.Fatalf("replayed case fails: %s: %s", f.Sig, f.Msg)
		}
	}
	fmt.Printf("REPLAY-PASS reps=%d\n", reps)
}

// Main must be called from TestMain; it writes the stats file.
func Main(m *testing.M) {
	code := m.Run()
	if p := os.Getenv("HX_STATS"); p != "" {
		mu.Lock()
		for _, s := range stats {
			s.Nontrivial = s.Nontrivial[:0]
			for h := range s.nt {
				s.Nontrivial = append(s.Nontrivial, h)
			}
			sort.Slice(s.Nontrivial, func(i, j int) bool { return s.Nontrivial[i] < s.Nontrivial[j] })
		}
		b, _ := json.Marshal(map[string]any{"tests": stats, "exit": code})
		mu.Unlock()
		os.WriteFile(p, b, 0o644)
	}
	os.Exit(code)
}

// known findings ------------------------------------------------------------

type knownEntry struct {
	Property  string `json:"property"`
	Status    string `json:"status"`
	Signature string `json:"signature"`
	What      string `json:"what"`
}

var (
	knownOnce sync.Once
	knownSigs map[string]bool
)

// Known reports whether sig is listed with status "known" in known_findings.json.
// Properties use it to exclude a listed finding by construction (and must count
// what they excluded via Ctx.Excluded).
func Known(sig string) bool {
	knownOnce.Do(func() {
		knownSigs = map[string]bool{}
		p := os.Getenv("HX_KNOWN")
		if p == "" {
			return
		}
		b, err := os.ReadFile(p)
		if err != nil {
			return
		}
		var doc struct {
			Findings []knownEntry `json:"findings"`
		}
		if json.Unmarshal(b, &doc) != nil {
			return
		}
		for _, e := range doc.Findings {
			if e.Status == "known" {
				knownSigs[e.Signature] = true
			}
		}
	})
	return knownSigs[sig]
}

// ReplayTarget returns the test name recorded in the replay file ($HX_REPLAY), or "".
func ReplayTarget() string {
	p := os.Getenv("HX_REPLAY")
	if p == "" {
		return ""
	}
	b, err := os.ReadFile(p)
	if err != nil {
		return ""
	}
	var rec failRecord
	if json.Unmarshal(b, &rec) != nil {
		return ""
	}
	return rec.Test
}

// Fuzz runs a gen/run property under Go's coverage-guided native fuzzer
// (rapid.MakeFuzz maps the fuzzer's bytes to rapid's random stream).
func Fuzz[C any](f *testing.F, gen func(*rapid.T) C, run func(C, *Ctx) *Failure) {
	f.Fuzz(rapid.MakeFuzz(func(rt *rapid.T) {
		c := gen(rt)
		if fl := run(c, &Ctx{Log: rt.Logf}); fl != nil {
			cj, _ := json.Marshal(c)
			rt.Fatalf("FAIL sig=%s\n%s\ncase=%s", fl.Sig, fl.Msg, cj)
		}
	}))
}
