// C01 — every upstream exchange returns the reply to its own query.
package c01

import (
	"bytes"
	"context"
	"crypto/tls"
	"encoding/base64"
	"fmt"
	"io"
	"net"
	"net/http"
	"strings"
	"sync"
	"testing"
	"time"

	"github.com/IrineSistiana/mosdns/v5/pkg/upstream"
	"github.com/IrineSistiana/mosdns/v5/pkg/upstream/doh"
	"github.com/IrineSistiana/mosdns/v5/pkg/upstream/transport"
	"github.com/IrineSistiana/mosdns/v5/pkg/utils"
	"github.com/quic-go/quic-go"
	"pgregory.net/rapid"

	"verif/harness/fakenet"
	"verif/harness/hx"
	"verif/harness/peer"
	"verif/harness/poolmon"
	"verif/harness/tx"
)

func TestMain(m *testing.M) {
	poolmon.Install()
	hx.Main(m)
}

type Act struct {
	K string `json:"k"` // deliver | dup | stray | cancel | late | start | dupnow | racecancel
	J int    `json:"j"`
}

type Case struct {
	Engine   string   `json:"engine"` // tdc | pipe | reuse | doh | doq (real quic upstream against a loopback quic-go server) | sock-<scheme> (real upstream over loopback sockets)
	Datagram bool     `json:"datagram"`
	IDs      []uint16 `json:"ids"` // caller IDs of the initial calls (collisions wanted)
	Acts     []Act    `json:"acts"`
	Chunks   []int    `json:"chunks"`
}

func genID(t *rapid.T, prev []uint16) uint16 {
	switch rapid.IntRange(0, 4).Draw(t, "idk") {
	case 0:
		return 0
	case 1:
		return 0xffff
	case 2:
		if len(prev) > 0 {
			return prev[rapid.IntRange(0, len(prev)-1).Draw(t, "same")]
		}
		return 1
	case 3:
		return uint16(rapid.IntRange(0, 40).Draw(t, "low")) // likely equal to a wire ID in use
	default:
		return uint16(rapid.IntRange(0, 65535).Draw(t, "any"))
	}
}

func genCase(t *rapid.T) Case {
	var c Case
	c.Engine = rapid.SampledFrom([]string{"tdc", "tdc", "tdc", "pipe", "pipe", "pipe", "reuse", "reuse", "doh", "doq", "sock-udp", "sock-tcp", "sock-tcp+pipeline", "sock-tls", "sock-tls+pipeline"}).Draw(t, "engine")
	if c.Engine == "tdc" || c.Engine == "pipe" {
		c.Datagram = rapid.Bool().Draw(t, "datagram")
	}
	maxN := 24
	if hx.Thorough() {
		maxN = 100
	}
	n := rapid.IntRange(1, maxN).Draw(t, "n")
	if rapid.Bool().Draw(t, "few") {
		n = rapid.IntRange(1, 6).Draw(t, "nfew")
	}
	for i := 0; i < n; i++ {
		c.IDs = append(c.IDs, genID(t, c.IDs))
	}
	na := rapid.IntRange(0, 3*n+4).Draw(t, "nacts")
	for i := 0; i < na; i++ {
		k := rapid.SampledFrom([]string{"deliver", "deliver", "deliver", "deliver", "dup", "stray", "cancel", "late", "start", "start", "dupnow", "racecancel"}).Draw(t, "k")
		c.Acts = append(c.Acts, Act{K: k, J: rapid.IntRange(0, 255).Draw(t, "j")})
	}
	if (c.Engine == "doq" || strings.HasPrefix(c.Engine, "sock-")) && len(c.IDs) > 12 {
		c.IDs = c.IDs[:12]
	}
	if !c.Datagram && c.Engine != "doh" && c.Engine != "doq" && !strings.HasPrefix(c.Engine, "sock-") {
		c.Chunks = rapid.SampledFrom([][]int{nil, nil, {1}, {2, 1 << 20}, {3, 5, 700}}).Draw(t, "chunks")
	}
	return c
}

type call struct {
	idx    int
	id     uint16
	name   string
	cancel context.CancelFunc
	done   chan struct{}
	resp   *[]byte
	copyOf []byte // copy of the reply at return time
	err    error
	// scripted state
	answered  bool
	cancelled bool
	ended     bool
	frame     []byte // the framed reply that was delivered
	conn      int
}

// ---------------------------------------------------------------- DoH scripted round tripper

type dohRT struct {
	mu      sync.Mutex
	book    *peer.Book
	pending map[string]chan []byte   // qname -> body to answer with
	arrived map[string][]byte        // qname -> query wire
	reqs    map[string]*http.Request // DoH: qname -> the request as handed to RoundTrip (its URL is read again when the reply is produced)
}

func (rt *dohRT) RoundTrip(req *http.Request) (*http.Response, error) {
	raw := req.URL.Query().Get("dns")
	q, err := base64.RawURLEncoding.DecodeString(raw)
	if err != nil {
		return nil, err
	}
	name := peer.QName(q)
	ch := make(chan []byte, 1)
	rt.mu.Lock()
	rt.pending[name] = ch
	rt.arrived[name] = q
	if rt.reqs != nil {
		rt.reqs[name] = req
	}
	rt.mu.Unlock()
	select {
	case body := <-ch:
		return &http.Response{StatusCode: 200, Body: io.NopCloser(bytes.NewReader(body)), Header: http.Header{"Content-Type": {"application/dns-message"}}, Request: req}, nil
	case <-req.Context().Done():
		return nil, req.Context().Err()
	}
}

// ---------------------------------------------------------------- DoQ loopback server (scripted)

type doqSrv struct {
	ln   *quic.Listener
	port int
	rt   *dohRT // same bookkeeping: pending[qname] <- reply bytes, arrived[qname] = query
}

var (
	doqOnce sync.Once
	doq     *doqSrv
	doqErr  error
)

func getDoq() (*doqSrv, error) {
	doqOnce.Do(func() {
		cert, err := utils.GenerateCertificate("c01.test")
		if err != nil {
			doqErr = err
			return
		}
		ln, err := quic.ListenAddr("127.0.0.1:0", &tls.Config{Certificates: []tls.Certificate{cert}, NextProtos: []string{"doq"}}, &quic.Config{MaxIncomingStreams: 1000})
		if err != nil {
			doqErr = err
			return
		}
		d := &doqSrv{ln: ln, port: ln.Addr().(*net.UDPAddr).Port}
		doq = d
		go func() {
			for {
				conn, err := ln.Accept(context.Background())
				if err != nil {
					return
				}
				go func() {
					for {
						st, err := conn.AcceptStream(context.Background())
						if err != nil {
							return
						}
						go d.serveStream(st)
					}
				}()
			}
		}()
	})
	return doq, doqErr
}

func (d *doqSrv) serveStream(st quic.Stream) {
	hdr := make([]byte, 2)
	if _, err := io.ReadFull(st, hdr); err != nil {
		return
	}
	q := make([]byte, int(hdr[0])<<8|int(hdr[1]))
	if _, err := io.ReadFull(st, q); err != nil {
		return
	}
	rt := d.rt
	if rt == nil {
		return
	}
	name := peer.QName(q)
	ch := make(chan []byte, 1)
	rt.mu.Lock()
	rt.pending[name] = ch
	rt.arrived[name] = q
	rt.mu.Unlock()
	select {
	case body := <-ch:
		fr := []byte{byte(len(body) >> 8), byte(len(body))}
		st.Write(append(fr, body...))
		st.Close()
	case <-time.After(20 * time.Second):
		st.CancelWrite(0)
	}
}

// ---------------------------------------------------------------- real-socket loopback server (scripted)

// sockSrv holds every query it receives (UDP datagrams, or frames on TCP/TLS connections)
// until the script delivers the reply; replies go back on the socket/connection the query
// came in on, in whatever order the script chooses.
type sockSrv struct {
	rt   *dohRT
	udp  *net.UDPConn
	tcp  net.Listener
	port int
}

func newSockSrv(rt *dohRT, useTLS bool) (*sockSrv, error) {
	for try := 0; try < 30; try++ {
		uc, err := net.ListenUDP("udp", &net.UDPAddr{IP: net.IPv4(127, 0, 0, 1)})
		if err != nil {
			return nil, err
		}
		port := uc.LocalAddr().(*net.UDPAddr).Port
		l, err := net.Listen("tcp", fmt.Sprintf("127.0.0.1:%d", port))
		if err != nil {
			uc.Close()
			continue
		}
		if useTLS {
			cert, err := utils.GenerateCertificate("c01.test")
			if err != nil {
				return nil, err
			}
			l = tls.NewListener(l, &tls.Config{Certificates: []tls.Certificate{cert}})
		}
		s := &sockSrv{rt: rt, udp: uc, tcp: l, port: port}
		go s.serveUDP()
		go s.serveTCP()
		return s, nil
	}
	return nil, fmt.Errorf("no port")
}

func (s *sockSrv) Close() { s.udp.Close(); s.tcp.Close() }

func (s *sockSrv) register(q []byte, send func([]byte)) {
	name := peer.QName(q)
	ch := make(chan []byte, 1)
	s.rt.mu.Lock()
	_, dup := s.rt.arrived[name]
	if !dup {
		s.rt.pending[name] = ch
		s.rt.arrived[name] = q
	}
	s.rt.mu.Unlock()
	if dup {
		return // a retransmission: the server answers each query once
	}
	go func() {
		select {
		case body := <-ch:
			send(body)
		case <-time.After(30 * time.Second):
		}
	}()
}

func (s *sockSrv) serveUDP() {
	buf := make([]byte, 65535)
	for {
		n, addr, err := s.udp.ReadFromUDP(buf)
		if err != nil {
			return
		}
		q := append([]byte(nil), buf[:n]...)
		s.register(q, func(body []byte) { s.udp.WriteToUDP(body, addr) })
	}
}

func (s *sockSrv) serveTCP() {
	for {
		c, err := s.tcp.Accept()
		if err != nil {
			return
		}
		go func() {
			defer c.Close()
			var wmu sync.Mutex
			for {
				hdr := make([]byte, 2)
				if _, err := io.ReadFull(c, hdr); err != nil {
					return
				}
				q := make([]byte, int(hdr[0])<<8|int(hdr[1]))
				if _, err := io.ReadFull(c, q); err != nil {
					return
				}
				s.register(q, func(body []byte) {
					wmu.Lock()
					c.Write(append([]byte{byte(len(body) >> 8), byte(len(body))}, body...))
					wmu.Unlock()
				})
			}
		}()
	}
}

// ---------------------------------------------------------------- runner

func runCase(c Case, ctx *hx.Ctx) *hx.Failure {
	poolmon.Reset()
	w := peer.NewWatcher()
	var eng tx.Engine
	var rt *dohRT
	env := tx.NewEnv(c.Datagram)
	env.OnDial = func(cn int, fc *fakenet.Conn) error { w.Install(cn, fc); return nil }
	switch c.Engine {
	case "sock-udp", "sock-tcp", "sock-tcp+pipeline", "sock-tls", "sock-tls+pipeline":
		rt = &dohRT{book: w.Book, pending: map[string]chan []byte{}, arrived: map[string][]byte{}}
		scheme := strings.TrimPrefix(c.Engine, "sock-")
		srv, err := newSockSrv(rt, strings.HasPrefix(scheme, "tls"))
		if err != nil {
			ctx.Class("skipped:no-loopback-server")
			return nil
		}
		defer srv.Close()
		u, err := upstream.NewUpstream(fmt.Sprintf("%s://127.0.0.1:%d", scheme, srv.port), upstream.Opt{TLSConfig: &tls.Config{InsecureSkipVerify: true}})
		if err != nil {
			return hx.Failf("C01/harness", "upstream: %v", err)
		}
		eng = upEngine{u}
	case "doq":
		d, err := getDoq()
		if err != nil {
			ctx.Class("skipped:no-quic-listener")
			return nil
		}
		rt = &dohRT{book: w.Book, pending: map[string]chan []byte{}, arrived: map[string][]byte{}}
		d.rt = rt
		u, err := upstream.NewUpstream(fmt.Sprintf("quic://127.0.0.1:%d", d.port), upstream.Opt{TLSConfig: &tls.Config{InsecureSkipVerify: true}})
		if err != nil {
			return hx.Failf("C01/harness", "quic upstream: %v", err)
		}
		eng = upEngine{u}
	case "doh":
		rt = &dohRT{book: w.Book, pending: map[string]chan []byte{}, arrived: map[string][]byte{}, reqs: map[string]*http.Request{}}
		u, err := doh.NewUpstream("https://doh.c01.test/dns-query", rt, nil)
		if err != nil {
			return hx.Failf("C01/harness", "%v", err)
		}
		eng = dohEngine{u}
	default:
		e, err := tx.NewEngine(c.Engine, env, tx.Opt{MaxCQ: 4096, LazyQueue: 4096})
		if err != nil {
			return hx.Failf("C01/harness", "%v", err)
		}
		eng = e
	}
	defer eng.Close()

	var calls []*call
	onWire := func(cl *call) bool {
		if rt != nil {
			deadline := time.Now().Add(10 * time.Second)
			for time.Now().Before(deadline) {
				rt.mu.Lock()
				_, ok := rt.arrived[cl.name]
				rt.mu.Unlock()
				if ok {
					return true
				}
				time.Sleep(100 * time.Microsecond)
			}
			return false
		}
		if !w.Wait(cl.name, 1, 10*time.Second) {
			return false
		}
		cl.conn = w.Seen(cl.name)[0].Conn
		return true
	}
	start := func(id uint16) (*call, bool) {
		cl := &call{idx: len(calls), id: id, name: fmt.Sprintf("n%d.c01.test.", len(calls)), done: make(chan struct{})}
		cx, cancel := context.WithCancel(context.Background())
		cl.cancel = cancel
		q := peer.Query(id, cl.name, 16)
		go func() {
			cl.resp, cl.err = eng.Exchange(cx, q)
			if cl.resp != nil {
				cl.copyOf = append([]byte(nil), *cl.resp...)
			}
			close(cl.done)
		}()
		calls = append(calls, cl)
		return cl, onWire(cl)
	}
	waitDone := func(cl *call, d time.Duration) bool {
		select {
		case <-cl.done:
			return true
		case <-time.After(d):
			return false
		}
	}
	judge := func(cl *call) *hx.Failure {
		if cl.err != nil {
			return hx.Failf("C01/answered-call-failed", "engine=%s call %d: reply delivered, exchange failed: %v", c.Engine, cl.idx, cl.err)
		}
		if why := w.Book.Judge(*cl.resp, cl.id, cl.name); why != "" {
			return hx.Failf("C01/wrong-reply", "engine=%s datagram=%v call %d (caller id %d, question %s): %s", c.Engine, c.Datagram, cl.idx, cl.id, cl.name, why)
		}
		return nil
	}
	deliver := func(cl *call) *hx.Failure {
		if rt != nil {
			rt.mu.Lock()
			q, ch := rt.arrived[cl.name], rt.pending[cl.name]
			req := rt.reqs[cl.name]
			rt.mu.Unlock()
			if req != nil {
				// a real HTTP transport serialises the request some time after RoundTrip was entered (once it has a
				// connection): the server answers what the request says then, which is read from the request only now
				if b, err := base64.RawURLEncoding.DecodeString(req.URL.Query().Get("dns")); err == nil {
					q = b
				}
			}
			r, _, err := w.Book.Reply(0, q, 0)
			if err != nil {
				return hx.Failf("C01/harness", "reply: %v", err)
			}
			cl.frame = r
			ch <- r
		} else {
			s := w.Seen(cl.name)[0]
			_, cl.frame = w.Answer(s, 0, c.Chunks)
		}
		cl.answered = true
		if !waitDone(cl, 10*time.Second) {
			return hx.Failf("C01/hang-after-reply", "call %d did not return within 10 s of its reply", cl.idx)
		}
		cl.ended = true
		return judge(cl)
	}
	pendingCalls := func() []*call {
		var out []*call
		for _, cl := range calls {
			if !cl.ended && !cl.answered && !cl.cancelled {
				out = append(out, cl)
			}
		}
		return out
	}
	// every still-pending call must stay pending after a discardable event
	stillPending := func(what string) *hx.Failure {
		for _, fc := range env.Conns() {
			if !fc.IsClosed() {
				fc.WaitReaderIdle(2 * time.Second)
			}
		}
		for _, cl := range pendingCalls() {
			select {
			case <-cl.done:
				if cl.err == nil {
					if f := judge(cl); f != nil {
						return hx.Failf("C01/discardable-reply-delivered", "after %s, call %d returned: %s", what, cl.idx, f.Msg)
					}
				}
				return hx.Failf("C01/discardable-reply-disturbed-call", "after %s, pending call %d returned (err=%v) although nothing addressed to it had arrived", what, cl.idx, cl.err)
			default:
			}
		}
		return nil
	}

	for _, id := range c.IDs {
		if _, ok := start(id); !ok {
			ctx.Class("inconclusive:query-not-sent")
			for _, cl := range calls {
				cl.cancel()
			}
			return nil
		}
	}
	nonFIFO, collide, extra := false, false, false
	seenID := map[uint16]bool{}
	for _, id := range c.IDs {
		if seenID[id] {
			collide = true
		}
		seenID[id] = true
	}
	lastDelivered := -1
	for _, a := range c.Acts {
		switch a.K {
		case "deliver":
			p := pendingCalls()
			if len(p) == 0 {
				continue
			}
			cl := p[a.J%len(p)]
			if cl.idx < lastDelivered || cl != p[0] {
				nonFIFO = true
			}
			lastDelivered = cl.idx
			if f := deliver(cl); f != nil {
				return f
			}
		case "dupnow", "racecancel":
			// dupnow: the server sends the reply twice back to back; racecancel: the reply arrives at the very
			// moment the caller gives up. Either the reply or (racecancel) the context error is a correct outcome;
			// what matters is that nothing of it leaks into a later call.
			if rt != nil || c.Engine == "reuse" {
				continue
			}
			p := pendingCalls()
			if len(p) == 0 {
				continue
			}
			cl := p[a.J%len(p)]
			s := w.Seen(cl.name)[0]
			fc := w.Conn(s.Conn)
			if fc == nil || fc.IsClosed() {
				continue
			}
			r, _, err := w.Book.Reply(s.Conn, s.Wire, 0)
			if err != nil {
				continue
			}
			fr := fc.Frame(r)
			extra = true
			if a.K == "dupnow" {
				fc.FeedChunks(append(append([]byte(nil), fr...), fr...), c.Chunks)
				if c.Datagram {
					fc.Feed(fr)
				}
			} else {
				if a.J%2 == 0 {
					cl.cancel()
					fc.FeedChunks(fr, c.Chunks)
				} else {
					fc.FeedChunks(fr, c.Chunks)
					cl.cancel()
				}
				cl.cancelled = true
			}
			cl.answered = true
			cl.frame = fr
			if !waitDone(cl, 10*time.Second) {
				return hx.Failf("C01/hang-after-reply", "call %d did not return", cl.idx)
			}
			cl.ended = true
			if cl.err == nil {
				if f := judge(cl); f != nil {
					return f
				}
			} else if a.K == "dupnow" {
				return hx.Failf("C01/answered-call-failed", "call %d: %v", cl.idx, cl.err)
			}
			if f := stillPending("a doubled / racing reply"); f != nil {
				return f
			}
		case "dup": // the server repeats a reply it already sent
			if rt != nil {
				continue
			}
			var done []*call
			for _, cl := range calls {
				if cl.answered && cl.ended && cl.frame != nil {
					done = append(done, cl)
				}
			}
			if len(done) == 0 {
				continue
			}
			cl := done[a.J%len(done)]
			fc := w.Conn(cl.conn)
			if fc == nil || fc.IsClosed() {
				continue
			}
			if c.Engine == "reuse" {
				// only while that connection is idle: a surplus reply must close it
				busy := false
				for _, o := range calls {
					// pending, or cancelled and never answered (the connection still waits for that reply:
					// a further reply then counts as the late reply to the abandoned query, not as a surplus one)
					if o == cl {
						continue
					}
					// (a cancelled query may have been re-sent on another idle connection by the transport's retry:
					// every sighting counts, not only the first; the harness only ever answers the first sighting,
					// so a re-sent copy stays unanswered even after the late reply to the first one)
					for i, sg := range w.Seen(o.name) {
						if sg.Conn == cl.conn && (!o.answered || i > 0) {
							busy = true
						}
					}
				}
				if busy {
					continue
				}
				fc.FeedChunks(cl.frame, c.Chunks)
				extra = true
				if !fc.WaitClosed(5 * time.Second) {
					return hx.Failf("C01/surplus-reply-keeps-connection", "reuse transport: a second reply arrived on idle connection %d, but the connection was not closed", cl.conn)
				}
				continue
			}
			fc.FeedChunks(cl.frame, c.Chunks)
			extra = true
			if f := stillPending("a duplicate reply"); f != nil {
				return f
			}
		case "stray": // a reply whose wire ID matches no outstanding query
			if rt != nil || c.Engine == "reuse" {
				continue
			}
			conns := env.Conns()
			if len(conns) == 0 {
				continue
			}
			fc := conns[a.J%len(conns)]
			if fc.IsClosed() {
				continue
			}
			out := map[uint16]bool{}
			for _, cl := range pendingCalls() {
				if cl.conn == fc.ID {
					out[peer.WireID(w.Seen(cl.name)[0].Wire)] = true
				}
			}
			id := uint16(a.J * 257)
			for out[id] {
				id++
			}
			fc.FeedChunks(fc.Frame(w.Book.Stray(id)), c.Chunks)
			extra = true
			if f := stillPending("a stray reply"); f != nil {
				return f
			}
		case "cancel":
			p := pendingCalls()
			if len(p) == 0 {
				continue
			}
			cl := p[a.J%len(p)]
			cl.cancel()
			cl.cancelled = true
			if !waitDone(cl, 10*time.Second) {
				return hx.Failf("C01/hang-after-reply", "cancelled call %d did not return", cl.idx)
			}
			cl.ended = true
			if cl.err == nil {
				return hx.Failf("C01/cancelled-call-got-reply", "call %d was cancelled before any reply to it existed, yet it returned a reply", cl.idx)
			}
		case "late": // the reply to an abandoned query arrives now (on a non-pipelined connection it is the one reply the server owes)
			if rt != nil {
				continue
			}
			var ab []*call
			for _, cl := range calls {
				if cl.cancelled && !cl.answered {
					ab = append(ab, cl)
				}
			}
			if len(ab) == 0 {
				continue
			}
			cl := ab[a.J%len(ab)]
			if fc := w.Conn(cl.conn); fc == nil || fc.IsClosed() {
				continue
			}
			w.Answer(w.Seen(cl.name)[0], 0, c.Chunks)
			cl.answered = true
			extra = true
			if f := stillPending("the late reply to a cancelled query"); f != nil {
				return f
			}
		case "start":
			if _, ok := start(genIDFrom(a.J, c.IDs)); !ok {
				ctx.Class("inconclusive:query-not-sent")
				for _, cl := range calls {
					cl.cancel()
				}
				return nil
			}
		}
	}
	// answer what is left, newest first
	p := pendingCalls()
	for i := len(p) - 1; i >= 0; i-- {
		if len(p) > 1 {
			nonFIFO = true
		}
		if f := deliver(p[i]); f != nil {
			return f
		}
	}
	// replies handed to callers must not change afterwards (released / reused buffers show as poison or foreign bytes)
	for _, cl := range calls {
		if cl.resp != nil && !bytes.Equal(*cl.resp, cl.copyOf) {
			return hx.Failf("C01/reply-buffer-reused", "the reply returned to call %d changed after it was returned (buffer released or reused while the caller owned it)", cl.idx)
		}
	}
	if pr := poolmon.Problems(); len(pr) > 0 {
		return hx.Failf("C01/double-release", "%v", pr)
	}
	for _, cl := range calls {
		cl.cancel()
	}
	ctx.Classf("engine=%s", c.Engine)
	if nonFIFO {
		ctx.Class("non-fifo-delivery")
	}
	if collide {
		ctx.Class("colliding-caller-ids")
	}
	if extra {
		ctx.Class("dup/stray/late")
	}
	if (len(calls) >= 2 && nonFIFO) || collide || extra {
		ctx.Nontrivial(fmt.Sprintf("%v", c))
	}
	ctx.Sample(c)
	return nil
}

func genIDFrom(j int, ids []uint16) uint16 {
	switch j % 4 {
	case 0:
		return 0
	case 1:
		return 0xffff
	case 2:
		if len(ids) > 0 {
			return ids[j%len(ids)]
		}
	}
	return uint16(j * 131)
}

type upEngine struct{ u upstream.Upstream }

func (e upEngine) Exchange(ctx context.Context, q []byte) (*[]byte, error) {
	return e.u.ExchangeContext(ctx, q)
}
func (e upEngine) Close() error { return e.u.Close() }

type dohEngine struct{ u *doh.Upstream }

func (e dohEngine) Exchange(ctx context.Context, q []byte) (*[]byte, error) {
	return e.u.ExchangeContext(ctx, q)
}
func (e dohEngine) Close() error { return nil }

func TestPropOwnReply(t *testing.T) { hx.Check(t, 4000, genCase, runCase) }

// ---------------------------------------------------------------- wire-ID wrap-around

type WrapCase struct {
	Datagram bool  `json:"datagram"`
	Held     []int `json:"held_at"` // exchange counts at which a call is started and left outstanding
	Extra    int   `json:"extra"`   // exchanges beyond 65536
}

func genWrap(t *rapid.T) WrapCase {
	c := WrapCase{Datagram: rapid.Bool().Draw(t, "datagram"), Extra: rapid.IntRange(50, 400).Draw(t, "extra")}
	n := rapid.IntRange(1, 5).Draw(t, "nheld")
	for i := 0; i < n; i++ {
		c.Held = append(c.Held, rapid.IntRange(0, 3000).Draw(t, "at"))
	}
	return c
}

func runWrap(c WrapCase, ctx *hx.Ctx) *hx.Failure {
	poolmon.Reset()
	w := peer.NewWatcher()
	fc := fakenet.New(c.Datagram)
	held := map[string]bool{}
	var hmu sync.Mutex
	outstanding := map[uint16]string{} // wire id -> held question
	var clash string
	w.Auto = func(cn int, f *fakenet.Conn, name string, q []byte) {
		hmu.Lock()
		isHeld := held[name]
		id := peer.WireID(q)
		if isHeld {
			outstanding[id] = name
		} else if other, ok := outstanding[id]; ok && clash == "" {
			clash = fmt.Sprintf("query %s was sent with wire ID %d while %s is still outstanding under that ID", name, id, other)
		}
		hmu.Unlock()
		if !isHeld {
			r, _, err := w.Book.Reply(cn, q, 0)
			if err == nil {
				f.Feed(f.Frame(r))
			}
		}
	}
	w.Install(0, fc)
	dc := transport.NewDnsConn(transport.TraditionalDnsConnOpts{WithLengthHeader: !c.Datagram, MaxConcurrentQuery: 4096, IdleTimeout: time.Hour}, fc)
	defer dc.Close()
	type hc struct {
		name string
		id   uint16
		done chan struct{}
		resp *[]byte
		err  error
	}
	var hcs []*hc
	heldAt := map[int]int{}
	for _, h := range c.Held {
		heldAt[h]++
	}
	total := 65536 + c.Extra
	cx, cancel := context.WithCancel(context.Background())
	defer cancel()
	for i := 0; i < total; i++ {
		for k := 0; k < heldAt[i]; k++ {
			h := &hc{name: fmt.Sprintf("held%d.c01.test.", len(hcs)), id: uint16(40000 + len(hcs)), done: make(chan struct{})}
			hmu.Lock()
			held[h.name] = true
			hmu.Unlock()
			rx, _ := dc.ReserveNewQuery()
			if rx == nil {
				return hx.Failf("C01/harness", "no capacity for a held call")
			}
			go func() {
				h.resp, h.err = rx.ExchangeReserved(cx, peer.Query(h.id, h.name, 16))
				close(h.done)
			}()
			if !w.Wait(h.name, 1, 10*time.Second) {
				return hx.Failf("C01/harness", "held query not sent")
			}
			hcs = append(hcs, h)
		}
		rx, _ := dc.ReserveNewQuery()
		if rx == nil {
			return hx.Failf("C01/harness", "no capacity at exchange %d", i)
		}
		name := fmt.Sprintf("s%d.c01.test.", i)
		id := uint16(i * 7)
		// the scripted peer answers each of these queries from inside the Write call: 15 s are only ever used up
		// when that reply is lost
		ex, exCancel := context.WithTimeout(cx, 15*time.Second)
		r, err := rx.ExchangeReserved(ex, peer.Query(id, name, 16))
		exCancel()
		if err != nil {
			return hx.Failf("C01/short-exchange-failed", "exchange %d on one connection (reply fed during the write): %v", i, err)
		}
		if why := w.Book.Judge(*r, id, name); why != "" {
			return hx.Failf("C01/wrong-reply", "wrap-around run, exchange %d: %s", i, why)
		}
		for _, h := range hcs {
			select {
			case <-h.done:
				return hx.Failf("C01/wrong-reply", "held call %s returned during the run (err=%v) although the server never answered it", h.name, h.err)
			default:
			}
		}
	}
	hmu.Lock()
	cl := clash
	hmu.Unlock()
	if cl != "" {
		return hx.Failf("C01/wire-id-reused-while-outstanding", "%s", cl)
	}
	for _, h := range hcs {
		w.Answer(w.Seen(h.name)[0], 0, nil)
		select {
		case <-h.done:
		case <-time.After(10 * time.Second):
			return hx.Failf("C01/hang-after-reply", "held call did not return after its reply")
		}
		if h.err != nil {
			return hx.Failf("C01/answered-call-failed", "held call: %v", h.err)
		}
		if why := w.Book.Judge(*h.resp, h.id, h.name); why != "" {
			return hx.Failf("C01/wrong-reply", "held call %s after %d exchanges: %s", h.name, total, why)
		}
	}
	if pr := poolmon.Problems(); len(pr) > 0 {
		return hx.Failf("C01/double-release", "%v", pr)
	}
	ctx.Class("wrap-around")
	ctx.Nontrivial(fmt.Sprintf("%v", c))
	ctx.Sample(map[string]any{"exchanges": total, "held_calls": len(hcs), "datagram": c.Datagram})
	return nil
}

func TestPropWrapAround(t *testing.T) { hx.Check(t, 4, genWrap, runWrap) }

func TestReplay(t *testing.T) {
	switch hx.ReplayTarget() {
	case "TestPropOwnReply":
		hx.Replay(t, "TestPropOwnReply", 10, runCase)
	case "TestPropWrapAround":
		hx.Replay(t, "TestPropWrapAround", 1, runWrap)
	default:
		t.Skip("no replay")
	}
}
