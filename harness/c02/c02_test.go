// C02 — a reply that arrives in time is never lost.
package c02

import (
	"bytes"
	"context"
	"fmt"
	"io"
	"sync"
	"testing"
	"time"

	"pgregory.net/rapid"

	"verif/harness/fakenet"
	"verif/harness/hx"
	"verif/harness/peer"
	"verif/harness/quiesce"
	"verif/harness/tx"
)

func TestMain(m *testing.M) { hx.Main(m) }

type Caller struct {
	Arrival string `json:"arrival"` // inwrite: reply consumed before the caller's Write returns; afterwrite: delivered once all queries were written
	ID      uint16 `json:"id"`
	Pad     int    `json:"pad"`
	Junk    bool   `json:"junk"` // datagram only: a packet shorter than a dns header arrives right before the reply
	Bare    bool   `json:"bare"` // datagram only: the reply is a bare 12-byte header (REFUSED, no question section)
}

type Case struct {
	Engine   string   `json:"engine"`   // tdc | pipe | reuse
	Datagram bool     `json:"datagram"` // tdc/pipe only
	Reused   bool     `json:"reused"`   // pipe/reuse: run on a connection that already served a query
	Callers  []Caller `json:"callers"`
	Follow   string   `json:"follow"` // what the peer does right after the last reply: none | eof | readerr | short
	Chunks   []int    `json:"chunks"`
}

func genCase(t *rapid.T) Case {
	var c Case
	c.Engine = rapid.SampledFrom([]string{"tdc", "tdc", "pipe", "pipe", "reuse", "reuse"}).Draw(t, "engine")
	if c.Engine != "reuse" {
		c.Datagram = rapid.Bool().Draw(t, "datagram")
	}
	if c.Engine != "tdc" {
		c.Reused = rapid.Bool().Draw(t, "reused")
	}
	n := 1
	if c.Engine != "reuse" {
		n = rapid.SampledFrom([]int{1, 1, 2, 3, 8}).Draw(t, "callers")
	}
	for i := 0; i < n; i++ {
		c.Callers = append(c.Callers, Caller{
			Arrival: rapid.SampledFrom([]string{"inwrite", "inwrite", "afterwrite"}).Draw(t, "arrival"),
			ID:      uint16(rapid.IntRange(0, 65535).Draw(t, "id")),
			Pad:     rapid.SampledFrom([]int{0, 0, 300, 3000}).Draw(t, "pad"),
			Junk:    c.Datagram && rapid.IntRange(0, 3).Draw(t, "junk") == 0,
			Bare:    c.Datagram && rapid.IntRange(0, 5).Draw(t, "bare") == 0,
		})
	}
	follows := []string{"none", "none", "eof", "eof", "readerr"}
	if !c.Datagram {
		follows = append(follows, "short")
	}
	c.Follow = rapid.SampledFrom(follows).Draw(t, "follow")
	if !c.Datagram {
		c.Chunks = rapid.SampledFrom([][]int{nil, {1}, {2, 1 << 20}, {1, 1, 1 << 20}, {3, 7}}).Draw(t, "chunks")
	}
	return c
}

type result struct {
	resp *[]byte
	err  error
	done bool
}

func runCase(c Case, ctx *hx.Ctx) *hx.Failure {
	book := peer.NewBook()
	env := tx.NewEnv(c.Datagram)
	n := len(c.Callers)
	qnames := make([]string, n)
	for i := range qnames {
		qnames[i] = fmt.Sprintf("call%d.c02.test.", i)
	}
	byName := map[string]int{}
	for i, q := range qnames {
		byName[q] = i
	}

	var mu sync.Mutex
	firstToken := map[int]string{} // caller -> token of the first reply the peer produced for it
	written := map[int]int{}       // caller -> times its query was seen on the wire (all connections)
	pending := map[int][]byte{}    // afterwrite replies waiting to be delivered: caller -> framed reply
	pendingConn := map[int]*fakenet.Conn{}
	replied := 0
	warm := c.Reused // the first query on connection 0 is the warm-up

	follow := func(fc *fakenet.Conn) {
		switch c.Follow {
		case "eof":
			fc.FeedErr(io.EOF)
		case "readerr":
			fc.FeedErr(fakenet.ErrInjected)
		case "short":
			fc.Feed([]byte{0, 5, 1, 2, 3, 4, 5})
		}
	}

	env.OnDial = func(cn int, fc *fakenet.Conn) error {
		fc.SetSyncWrites(!warm || cn > 0) // the warm-up exchange itself runs with ordinary (asynchronous) delivery
		var pmu sync.Mutex
		processed := 0
		var handle func(q []byte)
		fc.OnWrite(func(seq int, b []byte) error {
			// re-frame everything written so far (independently of how mosdns split its writes)
			// and handle every complete frame exactly once
			pmu.Lock()
			todo := fc.FramesFrom(processed)
			processed += len(todo)
			pmu.Unlock()
			for _, q := range todo {
				handle(q)
			}
			return nil
		})
		handle = func(q []byte) {
			name := peer.QName(q)
			if name == "warmup.c02.test." {
				r, _, err := book.Reply(cn, q, 0)
				if err == nil {
					fc.Feed(fc.Frame(r))
				}
				return
			}
			i, ok := byName[name]
			if !ok {
				return
			}
			mu.Lock()
			written[i]++
			first := written[i] == 1
			mu.Unlock()
			if !first {
				return // the peer answers each query once; a retransmission gets nothing
			}
			r, tok, err := book.Reply(cn, q, c.Callers[i].Pad)
			if err != nil {
				return
			}
			if c.Callers[i].Bare {
				r = bareReply(q)
			}
			mu.Lock()
			firstToken[i] = tok
			mu.Unlock()
			fr := fc.Frame(r)
			if c.Callers[i].Junk {
				fc.Feed([]byte{0xde, 0xad, 0xbe, 0xef, 1}) // noise the client must skip
			}
			if c.Callers[i].Arrival == "inwrite" {
				fc.FeedChunks(fr, c.Chunks)
				mu.Lock()
				replied++
				last := replied == n
				mu.Unlock()
				if last {
					follow(fc)
				}
			} else {
				mu.Lock()
				pending[i] = fr
				pendingConn[i] = fc
				mu.Unlock()
			}
		}
		return nil
	}

	eng, err := tx.NewEngine(c.Engine, env, tx.Opt{MaxCQ: 64, LazyQueue: 64})
	if err != nil {
		return hx.Failf("C02/harness", "engine: %v", err)
	}
	defer eng.Close()
	if warm {
		wctx, wcancel := context.WithTimeout(context.Background(), 20*time.Second)
		_, err := eng.Exchange(wctx, peer.Query(77, "warmup.c02.test.", 16))
		wcancel()
		if err != nil {
			ctx.Class("inconclusive:warm-up-failed")
			return nil
		}
		if fc := env.Conn(0); fc != nil {
			fc.WaitReaderIdle(2 * time.Second)
			fc.SetSyncWrites(true)
		}
	}

	cctx, cancel := context.WithCancel(context.Background())
	defer cancel()
	results := make([]result, n)
	var wg sync.WaitGroup
	for i := 0; i < n; i++ {
		wg.Add(1)
		go callOne(cctx, eng, peer.Query(c.Callers[i].ID, qnames[i], 16), &results[i], &mu, &wg)
	}
	// deliver the afterwrite replies once every query is on the wire
	nAfter := 0
	for _, cl := range c.Callers {
		if cl.Arrival == "afterwrite" {
			nAfter++
		}
	}
	if nAfter > 0 {
		deadline := time.Now().Add(10 * time.Second)
		for {
			mu.Lock()
			have := len(pending)
			mu.Unlock()
			if have >= nAfter || time.Now().After(deadline) {
				break
			}
			time.Sleep(200 * time.Microsecond)
		}
		mu.Lock()
		for i, fr := range pending {
			fc := pendingConn[i]
			fc.FeedChunks(fr, c.Chunks)
			replied++
			if replied == n {
				follow(fc)
			}
		}
		mu.Unlock()
	}

	// wait for the calls; a call that does not return although its reply was consumed is judged by quiescence
	allDone := make(chan struct{})
	go func() { wg.Wait(); close(allDone) }()
	select {
	case <-allDone:
	case <-time.After(2 * time.Second):
		// is every caller parked (lost), or merely not scheduled yet?
		stuck := quiesce.With("c02.callOne")
		parked := 0
		for _, g := range stuck {
			if g.Parked() {
				parked++
			}
		}
		if len(stuck) > 0 && parked == len(stuck) {
			for _, fc := range env.Conns() {
				fc.WaitReaderIdle(time.Second)
			}
			mu.Lock()
			var lost []int
			for i := range results {
				if !results[i].done && firstToken[i] != "" {
					lost = append(lost, i)
				}
			}
			mu.Unlock()
			cancel()
			<-allDone
			if len(lost) > 0 {
				return hx.Failf("C02/reply-lost", "engine=%s datagram=%v reused=%v follow=%s: the reply to call(s) %v was consumed by the connection reader, the connection is quiet, the caller(s) are parked and never return (arrival %v)", c.Engine, c.Datagram, c.Reused, c.Follow, lost, arrivals(c, lost))
			}
			ctx.Class("inconclusive:stuck-without-reply")
			return nil
		}
		select {
		case <-allDone:
		case <-time.After(30 * time.Second):
			cancel()
			<-allDone
			ctx.Class("inconclusive:callers-not-parked")
			return nil
		}
	}

	for i := range results {
		r := results[i]
		mu.Lock()
		tok := firstToken[i]
		w := written[i]
		mu.Unlock()
		if tok == "" {
			ctx.Class("inconclusive:query-never-seen")
			return nil
		}
		if r.err != nil {
			return hx.Failf("C02/error-despite-reply", "engine=%s datagram=%v reused=%v follow=%s call %d (arrival %s): the peer's reply was delivered, but the exchange failed with: %v", c.Engine, c.Datagram, c.Reused, c.Follow, i, c.Callers[i].Arrival, r.err)
		}
		if c.Callers[i].Bare {
			want := bareReply(peer.Query(c.Callers[i].ID, qnames[i], 16))
			if !bytes.Equal(*r.resp, want) {
				return hx.Failf("C02/wrong-reply", "call %d: the peer sent a bare header reply (REFUSED); the call returned % x, expected % x", i, *r.resp, want)
			}
			if w != 1 {
				return hx.Failf("C02/needed-retransmission", "engine=%s datagram=%v call %d: query seen %d times on the wire although the first (header-only) reply was delivered", c.Engine, c.Datagram, i, w)
			}
			ctx.Class("header-only-reply")
			continue
		}
		if why := book.Judge(*r.resp, c.Callers[i].ID, qnames[i]); why != "" {
			return hx.Failf("C02/wrong-reply", "call %d: %s", i, why)
		}
		if got := tokenOf(*r.resp); got != tok {
			return hx.Failf("C02/needed-retransmission", "engine=%s reused=%v follow=%s call %d: the first reply (%s) was delivered but the call returned %s - the query was sent again (seen %d times on the wire)", c.Engine, c.Reused, c.Follow, i, tok, got, w)
		}
		if w != 1 {
			return hx.Failf("C02/needed-retransmission", "engine=%s datagram=%v call %d: query seen %d times on the wire although the first reply was delivered", c.Engine, c.Datagram, i, w)
		}
	}

	ctx.Classf("engine=%s", c.Engine)
	ctx.Classf("follow=%s", c.Follow)
	nontrivial := c.Follow != "none"
	for _, cl := range c.Callers {
		ctx.Class("arrival=" + cl.Arrival)
		if cl.Arrival == "inwrite" {
			nontrivial = true
		}
	}
	if nontrivial {
		ctx.Nontrivial(fmt.Sprintf("%v", c))
	}
	ctx.Sample(c)
	return nil
}

func arrivals(c Case, idx []int) []string {
	var out []string
	for _, i := range idx {
		out = append(out, c.Callers[i].Arrival)
	}
	return out
}

func callOne(ctx context.Context, eng tx.Engine, q []byte, res *result, mu *sync.Mutex, wg *sync.WaitGroup) {
	defer wg.Done()
	r, err := eng.Exchange(ctx, q)
	mu.Lock()
	res.resp, res.err, res.done = r, err, true
	mu.Unlock()
}

// bareReply is the 12-byte header-only answer to q: same ID, QR set, RD copied, rcode REFUSED, all counts zero.
func bareReply(q []byte) []byte {
	r := make([]byte, 12)
	copy(r[:2], q[:2])
	r[2] = 0x80 | (q[2] & 0x01)
	r[3] = 5
	return r
}

func tokenOf(resp []byte) string { return peer.Token(resp) }

func TestPropReplyNotLost(t *testing.T) { hx.Check(t, 18000, genCase, runCase) }

func TestReplay(t *testing.T) { hx.Replay(t, "TestPropReplyNotLost", 20, runCase) }
