// Package cachex drives the real cache plugin: Exec with a scripted next hop,
// and the /dump, /load_dump, /flush API through httptest; plus an independent
// encoder/decoder of the dump format so entries of arbitrary age can be injected.
package cachex

import (
	"time"

	"bytes"
	"compress/gzip"
	"context"
	"encoding/binary"
	"fmt"
	"io"
	"net/http"
	"net/http/httptest"

	cacheplugin "github.com/IrineSistiana/mosdns/v5/plugin/executable/cache"

	"github.com/IrineSistiana/mosdns/v5/pkg/query_context"
	"github.com/IrineSistiana/mosdns/v5/plugin/executable/sequence"
	"github.com/miekg/dns"
	"google.golang.org/protobuf/proto"

	"verif/harness/hx"
)

type Plugin struct {
	C   *cacheplugin.Cache
	api http.Handler
}

func New(size, lazyTTL int) *Plugin {
	c := cacheplugin.NewCache(&cacheplugin.Args{Size: size, LazyCacheTTL: lazyTTL}, cacheplugin.Opts{})
	return &Plugin{C: c, api: c.Api()}
}

func (p *Plugin) Close() { p.C.Close() }

type NextFunc func(ctx context.Context, qCtx *query_context.Context) error

func (f NextFunc) Exec(ctx context.Context, qCtx *query_context.Context) error { return f(ctx, qCtx) }

// Walker builds the rest-of-chain the cache sees.
func Walker(next NextFunc) sequence.ChainWalker {
	return sequence.NewChainWalker([]*sequence.ChainNode{{E: next}}, nil)
}

// Exec runs one query context through the cache with next as the remaining chain.
func (p *Plugin) Exec(qCtx *query_context.Context, next NextFunc) error {
	return p.C.Exec(context.Background(), qCtx, Walker(next))
}

func (p *Plugin) Dump() ([]byte, error) {
	rec := httptest.NewRecorder()
	p.api.ServeHTTP(rec, httptest.NewRequest("GET", "/dump", nil))
	if rec.Code != 200 {
		return nil, fmt.Errorf("dump: http %d: %s", rec.Code, rec.Body.String())
	}
	return rec.Body.Bytes(), nil
}

// Load posts raw bytes to /load_dump and returns the HTTP status and body.
// LoadHangs is the status Load reports when /load_dump does not return and the goroutine serving it is stuck in
// mosdns code (see hx.HangVerdict); the body then holds its stack.
const LoadHangs = -1

func (p *Plugin) Load(b []byte) (int, string) {
	rec := httptest.NewRecorder()
	done := make(chan struct{})
	go func() {
		defer close(done)
		p.serveLoad(rec, b)
	}()
	for {
		select {
		case <-done:
			return rec.Code, rec.Body.String()
		case <-time.After(20 * time.Second):
		}
		if hang, detail := hx.HangVerdict("cachex.(*Plugin).serveLoad", nil); hang {
			return LoadHangs, "load_dump has not returned after 20 s; stuck:\n" + detail
		}
	}
}

//go:noinline
func (p *Plugin) serveLoad(rec *httptest.ResponseRecorder, b []byte) {
	p.api.ServeHTTP(rec, httptest.NewRequest("POST", "/load_dump", bytes.NewReader(b)))
}

func (p *Plugin) Flush() {
	rec := httptest.NewRecorder()
	p.api.ServeHTTP(rec, httptest.NewRequest("GET", "/flush", nil))
}

type Entry = cacheplugin.CachedEntry

const DumpHeader = "mosdns_cache_v2"

// DecodeDump is an independent reader of the dump format: gzip (Name = header),
// then blocks of 8-byte big-endian length + protobuf CacheDumpBlock.
func DecodeDump(b []byte) ([]*Entry, error) {
	gr, err := gzip.NewReader(bytes.NewReader(b))
	if err != nil {
		return nil, err
	}
	if gr.Name != DumpHeader {
		return nil, fmt.Errorf("header %q", gr.Name)
	}
	raw, err := io.ReadAll(gr)
	if err != nil {
		return nil, err
	}
	var out []*Entry
	for len(raw) > 0 {
		if len(raw) < 8 {
			return out, fmt.Errorf("short block header")
		}
		n := binary.BigEndian.Uint64(raw)
		raw = raw[8:]
		if uint64(len(raw)) < n {
			return out, fmt.Errorf("short block")
		}
		blk := new(cacheplugin.CacheDumpBlock)
		if err := proto.Unmarshal(raw[:n], blk); err != nil {
			return out, err
		}
		out = append(out, blk.GetEntries()...)
		raw = raw[n:]
	}
	return out, nil
}

// EncodeDump writes entries in blocks of blockSize.
func EncodeDump(entries []*Entry, blockSize int) []byte {
	var buf bytes.Buffer
	gw, _ := gzip.NewWriterLevel(&buf, gzip.BestSpeed)
	gw.Name = DumpHeader
	for i := 0; i < len(entries); {
		// at most blockSize entries and at most about 512 KiB of messages per block (the loader refuses blocks over 1 MiB)
		j, size := i, 0
		for j < len(entries) && j-i < blockSize && size < 512<<10 {
			size += len(entries[j].GetMsg()) + len(entries[j].GetKey())
			j++
		}
		blk := &cacheplugin.CacheDumpBlock{Entries: entries[i:j]}
		pb, err := proto.Marshal(blk)
		if err != nil {
			panic(err)
		}
		var l [8]byte
		binary.BigEndian.PutUint64(l[:], uint64(len(pb)))
		gw.Write(l[:])
		gw.Write(pb)
		i = j
	}
	gw.Close()
	return buf.Bytes()
}

// KeyOf obtains the opaque cache key the plugin derives for q, by storing a
// throw-away answer in a fresh instance and reading it back from /dump.
func KeyOf(q *dns.Msg) ([]byte, error) {
	p := New(1024, 0)
	defer p.Close()
	qCtx := query_context.NewContext(q.Copy())
	err := p.Exec(qCtx, func(_ context.Context, qc *query_context.Context) error {
		r := new(dns.Msg)
		r.SetReply(qc.Q())
		r.Answer = []dns.RR{&dns.TXT{Hdr: dns.RR_Header{Name: qc.Q().Question[0].Name, Rrtype: dns.TypeTXT, Class: dns.ClassINET, Ttl: 3600}, Txt: []string{"k"}}}
		qc.SetResponse(r)
		return nil
	})
	if err != nil {
		return nil, err
	}
	d, err := p.Dump()
	if err != nil {
		return nil, err
	}
	es, err := DecodeDump(d)
	if err != nil {
		return nil, err
	}
	if len(es) != 1 {
		return nil, fmt.Errorf("KeyOf: %d entries in dump", len(es))
	}
	return es[0].GetKey(), nil
}

// Wrap gives API access to an existing cache plugin instance.
func Wrap(c *cacheplugin.Cache) *Plugin { return &Plugin{C: c, api: c.Api()} }
