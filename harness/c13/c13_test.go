// C13 — IP sets contain exactly the addresses their prefixes cover.
// Differential against a linear scan with independent 128-bit arithmetic,
// plus the metamorphic relation "load order / duplication does not matter".
package c13

import (
	"bytes"
	"fmt"
	"net/netip"
	"os"
	"path/filepath"
	"strings"
	"testing"
	"time"

	"github.com/IrineSistiana/mosdns/v5/coremain"
	"github.com/IrineSistiana/mosdns/v5/pkg/matcher/netlist"
	"github.com/IrineSistiana/mosdns/v5/plugin/data_provider/ip_set"
	"pgregory.net/rapid"

	"verif/harness/hx"
)

func TestMain(m *testing.M) { hx.Main(m) }

// P is a prefix known by construction: 16 address bytes (IPv4 is stored
// v4-mapped), a length in the 128-bit space, and how it is written.
type P struct {
	A    [16]byte `json:"a"`
	Bits int      `json:"bits"` // 0..128, in the 128-bit space
	V4   bool     `json:"v4"`   // written as IPv4 (Bits >= 96)
	Bare bool     `json:"bare"` // written without /len (only when it is a full-length prefix)
}

type Case struct {
	Engine string     `json:"engine"` // append | text | reader | ipset | ipset_file
	Ps     []P        `json:"prefixes"`
	Perm   []int      `json:"perm"` // second load order (with duplicates) for the metamorphic relation
	Extra  [][16]byte `json:"extra_addrs"`
}

var v4pfx = [12]byte{0, 0, 0, 0, 0, 0, 0, 0, 0, 0, 0xff, 0xff}

func isMapped(a [16]byte) bool { return bytes.Equal(a[:12], v4pfx[:]) }

func (p P) String() string {
	var s string
	if p.V4 {
		s = netip.AddrFrom4([4]byte(p.A[12:])).String()
		if p.Bare {
			return s
		}
		return fmt.Sprintf("%s/%d", s, p.Bits-96)
	}
	s = netip.AddrFrom16(p.A).String()
	if p.Bare {
		return s
	}
	return fmt.Sprintf("%s/%d", s, p.Bits)
}

func (p P) netip() netip.Prefix {
	if p.V4 {
		return netip.PrefixFrom(netip.AddrFrom4([4]byte(p.A[12:])), p.Bits-96)
	}
	return netip.PrefixFrom(netip.AddrFrom16(p.A), p.Bits)
}

// covers: independent bit comparison.
func covers(p P, a [16]byte) bool {
	full := p.Bits / 8
	for i := 0; i < full; i++ {
		if p.A[i] != a[i] {
			return false
		}
	}
	if rem := p.Bits % 8; rem != 0 {
		mask := byte(0xff << (8 - rem))
		if p.A[full]&mask != a[full]&mask {
			return false
		}
	}
	return true
}

func first(p P) (a [16]byte) {
	a = p.A
	for i := p.Bits; i < 128; i++ {
		a[i/8] &^= 1 << (7 - i%8)
	}
	return
}
func last(p P) (a [16]byte) {
	a = p.A
	for i := p.Bits; i < 128; i++ {
		a[i/8] |= 1 << (7 - i%8)
	}
	return
}
func dec(a [16]byte) ([16]byte, bool) {
	for i := 15; i >= 0; i-- {
		a[i]--
		if a[i] != 0xff {
			return a, true
		}
	}
	return a, false // wrapped
}
func inc(a [16]byte) ([16]byte, bool) {
	for i := 15; i >= 0; i-- {
		a[i]++
		if a[i] != 0 {
			return a, true
		}
	}
	return a, false
}

var seedAddrs = [][16]byte{
	{},
	{0, 0, 0, 0, 0, 0, 0, 0, 0, 0, 0xff, 0xff, 0, 0, 0, 0},
	{0, 0, 0, 0, 0, 0, 0, 0, 0, 0, 0xff, 0xff, 10, 0, 0, 0},
	{0, 0, 0, 0, 0, 0, 0, 0, 0, 0, 0xff, 0xff, 10, 128, 0, 0},
	{0, 0, 0, 0, 0, 0, 0, 0, 0, 0, 0xff, 0xff, 192, 168, 1, 0},
	{0, 0, 0, 0, 0, 0, 0, 0, 0, 0, 0xff, 0xff, 255, 255, 255, 255},
	{0, 0, 0, 0, 0, 0, 0, 0, 0, 0, 0xff, 0xff, 127, 255, 255, 255},
	{0, 0, 0, 0, 0, 0, 0, 0, 0, 0, 0xff, 0xfe, 255, 255, 255, 255},
	{0, 0, 0, 0, 0, 0, 0, 0, 0, 0, 0xff, 0xff, 128, 0, 0, 0},
	{0x20, 0x01, 0x0d, 0xb8},
	{0x20, 0x01, 0x0d, 0xb8, 0, 0, 0, 0, 0, 0, 0, 0, 0, 0, 0, 1},
	{0x20, 0x01, 0x0d, 0xb8, 0x80},
	{0xff, 0xff, 0xff, 0xff, 0xff, 0xff, 0xff, 0xff, 0xff, 0xff, 0xff, 0xff, 0xff, 0xff, 0xff, 0xff},
	{0xfe, 0x80},
	{0, 0, 0, 0, 0, 0, 0, 0, 0, 0, 0, 0, 0, 0, 0, 1},
}

func genAddr(t *rapid.T, prev []P) [16]byte {
	switch rapid.IntRange(0, 9).Draw(t, "addrKind") {
	case 0, 1, 2:
		return seedAddrs[rapid.IntRange(0, len(seedAddrs)-1).Draw(t, "seed")]
	case 3, 4, 5, 6:
		if len(prev) > 0 { // derive from an earlier prefix: same base, or one bit flipped
			p := prev[rapid.IntRange(0, len(prev)-1).Draw(t, "from")]
			a := p.A
			if rapid.Bool().Draw(t, "flip") {
				b := rapid.IntRange(0, 127).Draw(t, "bit")
				a[b/8] ^= 1 << (7 - b%8)
			}
			return a
		}
		fallthrough
	default:
		var a [16]byte
		if rapid.Bool().Draw(t, "rv4") {
			copy(a[:], v4pfx[:])
			copy(a[12:], rapid.SliceOfN(rapid.Byte(), 4, 4).Draw(t, "b4"))
		} else {
			copy(a[:], rapid.SliceOfN(rapid.Byte(), 16, 16).Draw(t, "b16"))
		}
		return a
	}
}

func genCase(t *rapid.T) Case {
	var c Case
	c.Engine = rapid.SampledFrom([]string{"append", "append", "text", "reader", "ipset", "ipset_file"}).Draw(t, "engine")
	n := rapid.IntRange(0, 60).Draw(t, "n")
	if rapid.IntRange(0, 3).Draw(t, "small") == 0 {
		n = rapid.IntRange(0, 6).Draw(t, "nsmall")
	}
	for i := 0; i < n; i++ {
		var p P
		p.A = genAddr(t, c.Ps)
		mapped := isMapped(p.A)
		if mapped && rapid.IntRange(0, 4).Draw(t, "asv4") != 0 {
			p.V4 = true
			switch rapid.IntRange(0, 5).Draw(t, "lenkind4") {
			case 0:
				p.Bits = 96 + 32
			case 1:
				p.Bits = 96 + rapid.SampledFrom([]int{0, 1, 8, 16, 24, 31}).Draw(t, "common4")
			default:
				p.Bits = 96 + rapid.IntRange(0, 32).Draw(t, "bits4")
			}
		} else {
			switch rapid.IntRange(0, 5).Draw(t, "lenkind6") {
			case 0:
				p.Bits = 128
			case 1:
				p.Bits = rapid.SampledFrom([]int{0, 1, 32, 48, 64, 95, 96, 97, 120, 127}).Draw(t, "common6")
			default:
				p.Bits = rapid.IntRange(0, 128).Draw(t, "bits6")
			}
		}
		if p.Bits == 128 && c.Engine != "append" && rapid.Bool().Draw(t, "bare") {
			p.Bare = true
		}
		c.Ps = append(c.Ps, p)
	}
	// second order: permutation with duplicates
	if n > 0 {
		m := rapid.IntRange(n, 2*n).Draw(t, "permLen")
		seen := make([]bool, n)
		for i := 0; i < m; i++ {
			k := rapid.IntRange(0, n-1).Draw(t, "pi")
			c.Perm = append(c.Perm, k)
			seen[k] = true
		}
		for k, s := range seen {
			if !s {
				c.Perm = append(c.Perm, k)
			}
		}
	}
	ne := rapid.IntRange(0, 6).Draw(t, "nextra")
	for i := 0; i < ne; i++ {
		c.Extra = append(c.Extra, genAddr(t, c.Ps))
	}
	return c
}

type matcher interface{ Match(netip.Addr) bool }

func build(engine string, ps []P) (matcher, error) {
	switch engine {
	case "append":
		l := netlist.NewList()
		for _, p := range ps {
			l.Append(p.netip())
		}
		l.Sort()
		return l, nil
	case "text":
		l := netlist.NewList()
		for _, p := range ps {
			if err := netlist.LoadFromText(l, p.String()); err != nil {
				return nil, fmt.Errorf("LoadFromText(%q): %w", p.String(), err)
			}
		}
		l.Sort()
		return l, nil
	case "reader":
		var sb strings.Builder
		sb.WriteString("# header comment\n\n")
		for i, p := range ps {
			switch i % 4 {
			case 0:
				fmt.Fprintf(&sb, "%s\n", p)
			case 1:
				fmt.Fprintf(&sb, "  %s  # trailing comment 1.2.3.4/8\n", p)
			case 2:
				fmt.Fprintf(&sb, "%s some words\n\n", p)
			case 3:
				fmt.Fprintf(&sb, "\t%s\r\n", p)
			}
		}
		l := netlist.NewList()
		if err := netlist.LoadFromReader(l, strings.NewReader(sb.String())); err != nil {
			return nil, err
		}
		l.Sort()
		return l, nil
	case "ipset", "ipset_file":
		args := &ip_set.Args{}
		if engine == "ipset" {
			for _, p := range ps {
				args.IPs = append(args.IPs, p.String())
			}
		} else {
			dir, err := os.MkdirTemp("", "c13")
			if err != nil {
				return nil, err
			}
			defer os.RemoveAll(dir)
			half := len(ps) / 2
			var sb strings.Builder
			for _, p := range ps[:half] {
				fmt.Fprintf(&sb, "%s\n", p)
			}
			f := filepath.Join(dir, "a.txt")
			if err := os.WriteFile(f, []byte(sb.String()), 0o644); err != nil {
				return nil, err
			}
			args.Files = []string{f}
			for _, p := range ps[half:] {
				args.IPs = append(args.IPs, p.String())
			}
		}
		s, err := ip_set.NewIPSet(coremain.NewBP("c13", coremain.NewTestMosdnsWithPlugins(nil)), args)
		if err != nil {
			return nil, err
		}
		return s.GetIPMatcher(), nil
	}
	return nil, fmt.Errorf("unknown engine %s", engine)
}

func runCase(c Case, ctx *hx.Ctx) *hx.Failure {
	m1, err := build(c.Engine, c.Ps)
	if err != nil {
		return hx.Failf("C13/load-rejects-valid-prefix", "engine %s refused a valid list: %v", c.Engine, err)
	}
	var ps2 []P
	for _, k := range c.Perm {
		ps2 = append(ps2, c.Ps[k])
	}
	m2, err := build(c.Engine, ps2)
	if err != nil {
		return hx.Failf("C13/load-rejects-valid-prefix", "engine %s refused a valid permuted list: %v", c.Engine, err)
	}

	// structure of the set (for the non-triviality rule)
	nestedOrEqual := false
	for i := range c.Ps {
		for j := range c.Ps {
			if i != j && c.Ps[i].Bits <= c.Ps[j].Bits && covers(c.Ps[i], c.Ps[j].A) {
				nestedOrEqual = true
			}
		}
	}

	var addrs [][16]byte
	for _, p := range c.Ps {
		f, l := first(p), last(p)
		addrs = append(addrs, f, l, p.A)
		if a, ok := dec(f); ok {
			addrs = append(addrs, a)
		}
		if a, ok := inc(l); ok {
			addrs = append(addrs, a)
		}
	}
	nBoundary := len(addrs)
	addrs = append(addrs, c.Extra...)

	check := func(a [16]byte) *hx.Failure {
		want := false
		for _, p := range c.Ps {
			if covers(p, a) {
				want = true
				break
			}
		}
		forms := []netip.Addr{netip.AddrFrom16(a)}
		if isMapped(a) {
			forms = append(forms, netip.AddrFrom4([4]byte(a[12:])))
		}
		for _, q := range forms {
			if got := m1.Match(q); got != want {
				sig := "C13/false-negative"
				if got {
					sig = "C13/false-positive"
				}
				return hx.Failf(sig, "engine=%s set=%v addr=%s: got %v, reference says %v", c.Engine, c.Ps, q, got, want)
			}
			if got := m2.Match(q); got != want {
				return hx.Failf("C13/order-dependence", "engine=%s permuted/duplicated set gives %v for %s, reference says %v; set=%v perm=%v", c.Engine, got, q, want, c.Ps, c.Perm)
			}
		}
		return nil
	}
	var verdict *hx.Failure
	if done, hang, detail := hx.CallBounded(30*time.Second, func() {
		for _, a := range addrs {
			if f := check(a); f != nil {
				verdict = f
				return
			}
		}
	}); !done {
		if hang {
			return hx.Failf("C13/never-returns", "engine=%s set=%v: the membership queries have not returned after 30 s; stuck:\n%s", c.Engine, c.Ps, detail)
		}
		ctx.Class("inconclusive:queries-slow")
		return nil
	}
	if verdict != nil {
		return verdict
	}
	// invalid (zero) address never matches
	if m1.Match(netip.Addr{}) {
		return hx.Failf("C13/false-positive", "zero netip.Addr matched")
	}

	ctx.Class("engine=" + c.Engine)
	switch {
	case len(c.Ps) == 0:
		ctx.Class("set=empty")
	case nestedOrEqual:
		ctx.Class("set=nested-or-equal-base")
	default:
		ctx.Class("set=disjoint")
	}
	hasMapped6, has4 := false, false
	for _, p := range c.Ps {
		if p.V4 {
			has4 = true
		} else if isMapped(p.A) && p.Bits >= 96 {
			hasMapped6 = true
		}
	}
	if has4 && hasMapped6 {
		ctx.Class("v4-and-mapped-v6-rules")
	}
	if nestedOrEqual && nBoundary > 0 {
		ctx.Nontrivial(fmt.Sprintf("%s|%v|%v", c.Engine, c.Ps, c.Perm))
	}
	var strs []string
	for _, p := range c.Ps {
		strs = append(strs, p.String())
	}
	ctx.Sample(map[string]any{"engine": c.Engine, "prefixes": strs, "perm": c.Perm, "addresses_checked": len(addrs)})
	return nil
}

func TestPropContains(t *testing.T) { hx.Check(t, 40000, genCase, runCase) }

func TestReplay(t *testing.T) { hx.Replay(t, "TestPropContains", 1, runCase) }

func FuzzContains(f *testing.F) { hx.Fuzz(f, genCase, runCase) }
