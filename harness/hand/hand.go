// Package hand builds real plugin chains (sequence rule text over real plugins) in
// front of an in-memory echoing upstream and runs queries through the real
// server_handler.EntryHandler, capturing what the chain left in the query context.
package hand

import (
	"context"
	"fmt"
	"sync"

	"github.com/IrineSistiana/mosdns/v5/coremain"
	"github.com/IrineSistiana/mosdns/v5/pkg/pool"
	"github.com/IrineSistiana/mosdns/v5/pkg/query_context"
	"github.com/IrineSistiana/mosdns/v5/pkg/server"
	"github.com/IrineSistiana/mosdns/v5/pkg/server_handler"
	"github.com/IrineSistiana/mosdns/v5/pkg/upstream"
	_ "github.com/IrineSistiana/mosdns/v5/plugin" // registers every plugin type and quick setup
	fastforward "github.com/IrineSistiana/mosdns/v5/plugin/executable/forward"
	"github.com/IrineSistiana/mosdns/v5/plugin/executable/sequence"
	"github.com/miekg/dns"
	"go.uber.org/zap"
)

// EchoUpstream is the terminal "server": it records every query it receives and answers
// through Respond (which must be safe for concurrent use).
type EchoUpstream struct {
	mu       sync.Mutex
	Received []*dns.Msg
	Raw      [][]byte
	Respond  func(q *dns.Msg) (*dns.Msg, error)
}

func (u *EchoUpstream) ExchangeContext(ctx context.Context, m []byte) (*[]byte, error) {
	q := new(dns.Msg)
	if err := q.Unpack(m); err != nil {
		return nil, fmt.Errorf("echo upstream: query does not unpack: %w", err)
	}
	u.mu.Lock()
	u.Received = append(u.Received, q.Copy())
	u.Raw = append(u.Raw, append([]byte(nil), m...))
	u.mu.Unlock()
	r, err := u.Respond(q)
	if err != nil {
		return nil, err
	}
	w, err := r.Pack()
	if err != nil {
		return nil, fmt.Errorf("echo upstream: reply does not pack: %w", err)
	}
	b := pool.GetBuf(len(w))
	copy(*b, w)
	return b, nil
}

func (u *EchoUpstream) Close() error { return nil }

func (u *EchoUpstream) Snapshot() []*dns.Msg {
	u.mu.Lock()
	defer u.mu.Unlock()
	return append([]*dns.Msg(nil), u.Received...)
}

func (u *EchoUpstream) Reset() {
	u.mu.Lock()
	u.Received, u.Raw = nil, nil
	u.mu.Unlock()
}

// Env is one mosdns instance with harness-provided plugins.
type Env struct {
	Plugins map[string]any
	M       *coremain.Mosdns
	Up      *EchoUpstream
}

func NewEnv() (*Env, error) {
	e := &Env{Plugins: map[string]any{}, Up: &EchoUpstream{}}
	e.M = coremain.NewTestMosdnsWithPlugins(e.Plugins)
	f, err := fastforward.NewForwardWithUpstreams(1, []upstream.Upstream{e.Up}, []string{"echo"})
	if err != nil {
		return nil, err
	}
	e.Plugins["fwd"] = f
	return e, nil
}

func (e *Env) BP(tag string) *coremain.BP { return coremain.NewBP(tag, e.M) }

// AddSequence builds a sequence from rule text and registers it under tag.
func (e *Env) AddSequence(tag string, rules []sequence.RuleArgs) error {
	s, err := sequence.NewSequence(sequence.NewBQ(e.M, zap.NewNop()), rules)
	if err != nil {
		return err
	}
	e.Plugins[tag] = s
	return nil
}

// Captured is what the chain left behind for one query.
type Captured struct {
	Err  error
	Resp *dns.Msg // deep copy of qCtx.R() right after the entry returned (nil = none)
	// the OPT the handler will attach (copy), nil if the client sent none
	RespOpt *dns.OPT
}

// Handler wraps the entry sequence `tag` in the real EntryHandler; every Handle call
// appends to *caps what the chain left in the query context.
func (e *Env) Handler(tag string, caps *[]Captured, mu *sync.Mutex) (*server_handler.EntryHandler, error) {
	entry, ok := e.Plugins[tag].(sequence.Executable)
	if !ok {
		return nil, fmt.Errorf("entry %s is not executable", tag)
	}
	wrapped := sequence.ExecutableFunc(func(ctx context.Context, qCtx *query_context.Context) error {
		err := entry.Exec(ctx, qCtx)
		c := Captured{Err: err}
		if r := qCtx.R(); r != nil {
			c.Resp = r.Copy()
		}
		if o := qCtx.RespOpt(); o != nil {
			c.RespOpt = dns.Copy(o).(*dns.OPT)
		}
		mu.Lock()
		*caps = append(*caps, c)
		mu.Unlock()
		return err
	})
	return server_handler.NewEntryHandler(server_handler.EntryHandlerOpts{Entry: wrapped}), nil
}

// Close closes closable plugins.
func (e *Env) Close() {
	for _, p := range e.Plugins {
		if c, ok := p.(interface{ Close() error }); ok {
			c.Close()
		}
	}
}

// Meta helpers
func UDPMeta() server.QueryMeta { return server.QueryMeta{FromUDP: true} }
func TCPMeta() server.QueryMeta { return server.QueryMeta{} }
