// C09 — per-connection concurrency limits hold and capacity never leaks.
package c09

import (
	"context"
	"fmt"
	"sync"
	"testing"
	"time"

	"github.com/IrineSistiana/mosdns/v5/pkg/upstream/transport"
	"pgregory.net/rapid"

	"verif/harness/fakenet"
	"verif/harness/hx"
	"verif/harness/peer"
	"verif/harness/quiesce"
	"verif/harness/tx"
)

func TestMain(m *testing.M) { hx.Main(m) }

// ---------------------------------------------------------------- wire watcher shared by all scenarios

// watcher tracks, per connection, which queries are on the wire and not yet answered
// (and whose call has not ended), and can answer them on demand.
type watcher struct {
	mu       sync.Mutex
	book     *peer.Book
	active   map[int]map[string][]byte // conn -> qname -> wire query
	maxAct   map[int]int
	seenOn   map[string][]int // qname -> connections it was written on
	conns    map[int]*fakenet.Conn
	autoWarm bool
}

func newWatcher() *watcher {
	return &watcher{book: peer.NewBook(), active: map[int]map[string][]byte{}, maxAct: map[int]int{}, seenOn: map[string][]int{}, conns: map[int]*fakenet.Conn{}}
}

func (w *watcher) install(cn int, fc *fakenet.Conn) {
	w.mu.Lock()
	w.conns[cn] = fc
	w.active[cn] = map[string][]byte{}
	w.mu.Unlock()
	var pmu sync.Mutex
	processed := 0
	fc.OnWrite(func(int, []byte) error {
		pmu.Lock()
		todo := fc.FramesFrom(processed)
		processed += len(todo)
		pmu.Unlock()
		for _, q := range todo {
			name := peer.QName(q)
			if name == "" {
				continue
			}
			if w.autoWarm && name == "warmup.c09.test." {
				r, _, _ := w.book.Reply(cn, q, 0)
				fc.Feed(fc.Frame(r))
				continue
			}
			w.mu.Lock()
			w.active[cn][name] = q
			if n := len(w.active[cn]); n > w.maxAct[cn] {
				w.maxAct[cn] = n
			}
			w.seenOn[name] = append(w.seenOn[name], cn)
			w.mu.Unlock()
		}
		return nil
	})
}

// ended: the call for qname is over (answered, cancelled or failed): it no longer occupies the connection.
func (w *watcher) ended(name string) {
	w.mu.Lock()
	for _, m := range w.active {
		delete(m, name)
	}
	w.mu.Unlock()
}

func (w *watcher) reply(name string) bool {
	w.mu.Lock()
	for cn, m := range w.active {
		if q, ok := m[name]; ok {
			fc := w.conns[cn]
			delete(m, name)
			w.mu.Unlock()
			r, _, err := w.book.Reply(cn, q, 0)
			if err != nil {
				return false
			}
			fc.Feed(fc.Frame(r))
			return true
		}
	}
	w.mu.Unlock()
	return false
}

func (w *watcher) onWire(name string) bool {
	w.mu.Lock()
	defer w.mu.Unlock()
	return len(w.seenOn[name]) > 0
}

func (w *watcher) waitOnWire(name string, d time.Duration) bool {
	deadline := time.Now().Add(d)
	for !w.onWire(name) {
		if time.Now().After(deadline) {
			return false
		}
		time.Sleep(100 * time.Microsecond)
	}
	return true
}

func (w *watcher) dump() string {
	w.mu.Lock()
	defer w.mu.Unlock()
	return fmt.Sprintf("seenOn=%v active=%v", w.seenOn, func() map[int][]string { o := map[int][]string{}; for cn, m := range w.active { for k := range m { o[cn] = append(o[cn], k) } }; return o }())
}

func (w *watcher) maxActive() (int, int) {
	w.mu.Lock()
	defer w.mu.Unlock()
	best, conn := 0, -1
	for cn, n := range w.maxAct {
		if n > best {
			best, conn = n, cn
		}
	}
	return best, conn
}

// ---------------------------------------------------------------- A. TraditionalDnsConn state machine

type Op struct {
	K string `json:"k"` // reserve | exchange | withdraw | reply | cancel | probe | conprobe (8 goroutines reserve at once) | deadexchange
	I int    `json:"i"` // index into the relevant list (mod len)
}

type ConnCase struct {
	Limit    int  `json:"limit"`
	Datagram bool `json:"datagram"`
	Ops      []Op `json:"ops"`
}

func genConnCase(t *rapid.T) ConnCase {
	c := ConnCase{Limit: rapid.SampledFrom([]int{1, 2, 3, 8, 64}).Draw(t, "limit"), Datagram: rapid.Bool().Draw(t, "datagram")}
	n := rapid.IntRange(1, 60).Draw(t, "nops")
	for i := 0; i < n; i++ {
		k := rapid.SampledFrom([]string{"reserve", "reserve", "reserve", "exchange", "exchange", "exchange", "withdraw", "reply", "reply", "cancel", "probe", "conprobe", "deadexchange"}).Draw(t, "k")
		c.Ops = append(c.Ops, Op{K: k, I: rapid.IntRange(0, 63).Draw(t, "i")})
	}
	return c
}

type call struct {
	name   string
	cancel context.CancelFunc
	done   chan struct{}
	err    error
	resp   *[]byte
}

func runConnCase(c ConnCase, ctx *hx.Ctx) *hx.Failure {
	w := newWatcher()
	fc := fakenet.New(c.Datagram)
	w.install(0, fc)
	dc := transport.NewDnsConn(transport.TraditionalDnsConnOpts{WithLengthHeader: !c.Datagram, MaxConcurrentQuery: c.Limit}, fc)
	defer dc.Close()

	var held []transport.ReservedExchanger // reserved, not yet used
	var flying []*call                      // written, call not ended
	serial := 0
	sawRelease, sawFull := false, false

	reserveExpect := func() (transport.ReservedExchanger, *hx.Failure) {
		inUse := len(held) + len(flying)
		rx, closed := dc.ReserveNewQuery()
		if closed {
			return nil, hx.Failf("C09/harness", "connection reports closed")
		}
		if rx == nil && inUse < c.Limit {
			return nil, hx.Failf("C09/refused-below-limit", "limit %d: connection holds %d unanswered queries and %d unused reservations, but refuses another query", c.Limit, len(flying), len(held))
		}
		if rx != nil && inUse >= c.Limit {
			// admitted above the limit: becomes a wire violation as soon as it is sent; report it now
			rx.WithdrawReserved()
			return nil, hx.Failf("C09/admitted-above-limit", "limit %d: connection holds %d unanswered queries and %d unused reservations, and admits one more", c.Limit, len(flying), len(held))
		}
		if rx == nil {
			sawFull = true
		}
		return rx, nil
	}
	endCall := func(i int) {
		cl := flying[i]
		<-cl.done
		w.ended(cl.name)
		flying = append(flying[:i], flying[i+1:]...)
		sawRelease = true
	}

	for _, op := range c.Ops {
		switch op.K {
		case "reserve":
			rx, f := reserveExpect()
			if f != nil {
				return f
			}
			if rx != nil {
				held = append(held, rx)
			}
		case "withdraw":
			if len(held) > 0 {
				i := op.I % len(held)
				held[i].WithdrawReserved()
				held = append(held[:i], held[i+1:]...)
				sawRelease = true
			}
		case "deadexchange": // a held reservation is used with a context that is already over
			if len(held) > 0 {
				i := op.I % len(held)
				rx := held[i]
				held = append(held[:i], held[i+1:]...)
				cx, cancel := context.WithCancel(context.Background())
				cancel()
				serial++
				done := make(chan error, 1)
				dname := fmt.Sprintf("dead%d.c09.test.", serial)
				go func(q []byte) { _, err := rx.ExchangeReserved(cx, q); done <- err }(peer.Query(uint16(serial), dname, 16))
				select {
				case <-done:
				case <-time.After(10 * time.Second):
					return hx.Failf("C09/harness", "exchange with a cancelled context did not return")
				}
				w.ended(dname) // the call is over: whether or not its query reached the wire, it occupies nothing
				sawRelease = true
			}
		case "exchange":
			if len(held) > 0 {
				i := op.I % len(held)
				rx := held[i]
				held = append(held[:i], held[i+1:]...)
				serial++
				cl := &call{name: fmt.Sprintf("q%d.c09.test.", serial), done: make(chan struct{})}
				cx, cancel := context.WithCancel(context.Background())
				cl.cancel = cancel
				qw := peer.Query(uint16(serial), cl.name, 16)
				go func() {
					cl.resp, cl.err = rx.ExchangeReserved(cx, qw)
					close(cl.done)
				}()
				if !w.waitOnWire(cl.name, 5*time.Second) {
					cancel()
					<-cl.done
					return hx.Failf("C09/query-not-sent", "limit %d: reserved query was not written within 5 s (err %v)", c.Limit, cl.err)
				}
				flying = append(flying, cl)
				if n, _ := w.maxActive(); n > c.Limit {
					return hx.Failf("C09/limit-exceeded", "limit %d: %d unanswered queries on the connection", c.Limit, n)
				}
			}
		case "reply":
			if len(flying) > 0 {
				i := op.I % len(flying)
				if w.reply(flying[i].name) {
					cl := flying[i]
					<-cl.done
					if cl.err != nil {
						return hx.Failf("C09/harness", "replied call failed: %v", cl.err)
					}
					endCall(i)
				}
			}
		case "cancel":
			if len(flying) > 0 {
				i := op.I % len(flying)
				flying[i].cancel()
				endCall(i)
			}
		case "conprobe":
			// eight callers reserve at the same moment: together they get exactly the free slots, never more
			var mu sync.Mutex
			var got []transport.ReservedExchanger
			var wg sync.WaitGroup
			startAll := make(chan struct{})
			for g := 0; g < 8; g++ {
				wg.Add(1)
				go func() {
					defer wg.Done()
					<-startAll
					for k := 0; k < c.Limit+2; k++ {
						rx, _ := dc.ReserveNewQuery()
						if rx == nil {
							return
						}
						mu.Lock()
						got = append(got, rx)
						mu.Unlock()
					}
				}()
			}
			close(startAll)
			wg.Wait()
			for _, rx := range got {
				rx.WithdrawReserved()
			}
			want := c.Limit - len(held) - len(flying)
			if len(got) != want {
				sig := "C09/capacity-leaked"
				if len(got) > want {
					sig = "C09/admitted-above-limit"
				}
				return hx.Failf(sig, "limit %d, %d unanswered, %d reserved: 8 concurrent callers were admitted %d more queries in total, expected %d", c.Limit, len(flying), len(held), len(got), want)
			}
			ctx.Class("concurrent-reservations")
		case "probe":
			// how many more does it admit right now?
			var got []transport.ReservedExchanger
			for k := 0; k < c.Limit+2; k++ {
				rx, _ := dc.ReserveNewQuery()
				if rx == nil {
					break
				}
				got = append(got, rx)
			}
			for _, rx := range got {
				rx.WithdrawReserved()
			}
			want := c.Limit - len(held) - len(flying)
			if len(got) != want {
				sig := "C09/capacity-leaked"
				if len(got) > want {
					sig = "C09/capacity-grew"
				}
				return hx.Failf(sig, "limit %d, %d unanswered, %d reserved: connection admits %d more queries, expected %d", c.Limit, len(flying), len(held), len(got), want)
			}
		}
	}
	// quiesce: end everything, then the connection must admit exactly Limit queries again
	for len(flying) > 0 {
		flying[0].cancel()
		endCall(0)
	}
	for _, rx := range held {
		rx.WithdrawReserved()
	}
	held = nil
	var got []transport.ReservedExchanger
	for k := 0; k < c.Limit+2; k++ {
		rx, _ := dc.ReserveNewQuery()
		if rx == nil {
			break
		}
		got = append(got, rx)
	}
	for _, rx := range got {
		rx.WithdrawReserved()
	}
	if len(got) != c.Limit {
		sig := "C09/capacity-leaked"
		if len(got) > c.Limit {
			sig = "C09/capacity-grew"
		}
		return hx.Failf(sig, "limit %d: after every query ended and every reservation was withdrawn the connection admits %d queries", c.Limit, len(got))
	}
	ctx.Classf("limit=%d", c.Limit)
	if sawFull {
		ctx.Class("reached-limit")
	}
	if sawRelease {
		ctx.Nontrivial(fmt.Sprintf("%v", c))
	}
	ctx.Sample(c)
	return nil
}

func TestPropConnAccounting(t *testing.T) { hx.Check(t, 6000, genConnCase, runConnCase) }

// ---------------------------------------------------------------- B/C. PipelineTransport: dialing phase and established connection

// orderGate lets the test decide in which order concurrent ReserveNewQuery calls on the
// freshly dialled connection run: the latest arrival goes first.
type orderGate struct {
	mu      sync.Mutex
	active  bool
	waiting []chan struct{}
	lastAt  time.Time
	fin     chan struct{}
}

func (g *orderGate) arrive() {
	g.mu.Lock()
	if !g.active {
		g.mu.Unlock()
		return
	}
	ch := make(chan struct{})
	g.waiting = append(g.waiting, ch)
	g.lastAt = time.Now()
	g.mu.Unlock()
	<-ch
}

func (g *orderGate) arrived() int {
	g.mu.Lock()
	defer g.mu.Unlock()
	return len(g.waiting)
}

func (g *orderGate) finished() {
	g.mu.Lock()
	f := g.fin
	g.mu.Unlock()
	if f != nil {
		f <- struct{}{}
	}
}

// drain releases the arrivals newest-first, one at a time, until nothing has arrived for quiet.
func (g *orderGate) drain(expect int, quiet time.Duration) (released int) {
	g.mu.Lock()
	g.fin = make(chan struct{}, 1024)
	g.lastAt = time.Now()
	g.mu.Unlock()
	for {
		g.mu.Lock()
		n := len(g.waiting)
		idle := time.Since(g.lastAt)
		if n == 0 && idle > quiet {
			g.active = false
			g.mu.Unlock()
			return released
		}
		// before the first release: give every expected caller the chance to arrive
		if (released == 0 && n < expect && idle < quiet) || n == 0 {
			g.mu.Unlock()
			time.Sleep(200 * time.Microsecond)
			continue
		}
		ch := g.waiting[n-1]
		g.waiting = g.waiting[:n-1]
		g.lastAt = time.Now()
		g.mu.Unlock()
		close(ch)
		select {
		case <-g.fin:
		case <-time.After(5 * time.Second):
		}
		released++
	}
}

type gatedConn struct {
	inner transport.DnsConn
	g     *orderGate
}

func (c *gatedConn) ReserveNewQuery() (transport.ReservedExchanger, bool) {
	c.g.arrive()
	rx, closed := c.inner.ReserveNewQuery()
	c.g.finished()
	return rx, closed
}
func (c *gatedConn) Close() error { return c.inner.Close() }

type BurstCase struct {
	Limit     int    `json:"limit"`     // connection limit = queue limit while dialing
	N         int    `json:"n"`         // burst size
	Phase     string `json:"phase"`     // dialing | established
	Dial      string `json:"dial"`      // ok | fail (dialing phase only)
	CancelK   int    `json:"cancel_k"`  // cancel this many early callers before the dial finishes
	Datagram  bool   `json:"datagram"`
	SecondOK  bool   `json:"second_ok"` // whether a second connection may be dialled (n > limit needs it)
	Refill    int    `json:"refill"`    // dialing phase: further queries issued after the cancellations, while the dial is still held
}

func genBurst(t *rapid.T) BurstCase {
	c := BurstCase{Limit: rapid.SampledFrom([]int{1, 2, 3, 8, 64}).Draw(t, "limit"), Datagram: rapid.Bool().Draw(t, "datagram")}
	c.Phase = rapid.SampledFrom([]string{"dialing", "dialing", "established", "dialing-late", "handover-cancel"}).Draw(t, "phase")
	switch rapid.IntRange(0, 3).Draw(t, "nk") {
	case 0:
		c.N = c.Limit
	case 1:
		c.N = rapid.IntRange(1, c.Limit).Draw(t, "nle")
	case 2:
		c.N = c.Limit/2 + 1
	case 3:
		c.N = c.Limit + rapid.IntRange(1, c.Limit+3).Draw(t, "ngt")
		c.SecondOK = true
	}
	c.Dial = "ok"
	if c.Phase == "dialing-late" {
		// exactly a full queue of early callers plus one late caller that arrives while they re-reserve
		c.N = c.Limit
		c.SecondOK = true
	}
	if c.Phase == "handover-cancel" {
		// a full queue of early callers; some of them are cancelled after the dial finished, at the moment they
		// re-reserve on the dialled connection
		c.N = c.Limit
		c.CancelK = rapid.IntRange(1, c.N).Draw(t, "cancelAtHandover")
	}
	if c.Phase == "dialing" {
		if rapid.IntRange(0, 4).Draw(t, "dialFail") == 0 {
			c.Dial = "fail"
		}
		if c.N > 1 && rapid.IntRange(0, 2).Draw(t, "cancelSome") == 0 {
			c.CancelK = rapid.IntRange(1, c.N-1).Draw(t, "cancelK")
			if rapid.Bool().Draw(t, "refill") {
				// more queries arrive while the connection is still dialing; whatever does not fit goes to a second connection
				c.Refill = rapid.IntRange(1, c.Limit).Draw(t, "refillN")
				c.SecondOK = true
			}
		}
	}
	return c
}

func runBurst(c BurstCase, ctx *hx.Ctx) *hx.Failure {
	w := newWatcher()
	w.autoWarm = true
	env := tx.NewEnv(c.Datagram)
	gate := make(chan struct{})
	var gateOnce sync.Once
	openGate := func() { gateOnce.Do(func() { close(gate) }) }
	defer openGate()
	og := &orderGate{}
	if c.Phase == "dialing" || c.Phase == "dialing-late" || c.Phase == "handover-cancel" {
		env.DialGate = gate
	}
	if c.Phase == "dialing-late" || c.Phase == "handover-cancel" {
		og.active = true
	}
	env.OnDial = func(cn int, fc *fakenet.Conn) error {
		if c.Dial == "fail" && c.Phase == "dialing" {
			return tx.ErrDial // every dial fails in this scenario
		}
		if cn >= 1 && !c.SecondOK {
			return fmt.Errorf("harness: a second connection is not allowed in this scenario")
		}
		w.install(cn, fc)
		return nil
	}
	eng, err := tx.NewEngine("pipe", env, tx.Opt{MaxCQ: c.Limit, LazyQueue: c.Limit, WrapDnsConn: func(dc transport.DnsConn) transport.DnsConn {
		return &gatedConn{inner: dc, g: og}
	}})
	if err != nil {
		return hx.Failf("C09/harness", "%v", err)
	}
	defer eng.Close()
	if c.Phase == "established" {
		wc, cancel := context.WithTimeout(context.Background(), 10*time.Second)
		_, err := eng.Exchange(wc, peer.Query(1, "warmup.c09.test.", 16))
		cancel()
		if err != nil {
			ctx.Class("inconclusive:warm-up-failed")
			return nil
		}
	}
	calls := make([]*call, c.N)
	for i := range calls {
		cl := &call{name: fmt.Sprintf("b%d.c09.test.", i), done: make(chan struct{})}
		cx, cancel := context.WithCancel(context.Background())
		cl.cancel = cancel
		calls[i] = cl
		go burstCall(cx, eng, cl, uint16(100+i))
	}
	allReturned := func(d time.Duration, idx []int) bool {
		deadline := time.After(d)
		for _, i := range idx {
			select {
			case <-calls[i].done:
			case <-deadline:
				return false
			}
		}
		return true
	}
	all := make([]int, c.N)
	for i := range all {
		all[i] = i
	}
	live := all
	var late *call
	if c.Phase == "dialing-late" {
		// a full queue of early callers is parked on the dialing connection
		deadline := time.Now().Add(5 * time.Second)
		for time.Now().Before(deadline) && len(quiesce.With("lazyDnsConnEarlyReservedExchanger).ExchangeReserved")) < c.N {
			time.Sleep(200 * time.Microsecond)
		}
		openGate()
		// the early callers now try to re-reserve on the real connection and are held at the order gate;
		// a late caller arrives meanwhile. If it can overtake them it takes one of their slots.
		late = &call{name: "late.c09.test.", done: make(chan struct{})}
		lcx, lcancel := context.WithCancel(context.Background())
		late.cancel = lcancel
		time.Sleep(2 * time.Millisecond)
		go burstCall(lcx, eng, late, 9999)
		og.drain(c.N+1, 30*time.Millisecond)
	}
	if c.Phase == "handover-cancel" {
		deadline := time.Now().Add(5 * time.Second)
		for time.Now().Before(deadline) && len(quiesce.With("lazyDnsConnEarlyReservedExchanger).ExchangeReserved")) < c.N {
			time.Sleep(200 * time.Microsecond)
		}
		openGate()
		// every early caller has seen the dial finish and is held just before it reserves on the dialled connection
		deadline = time.Now().Add(5 * time.Second)
		for time.Now().Before(deadline) && og.arrived() < c.N {
			time.Sleep(200 * time.Microsecond)
		}
		if og.arrived() < c.N {
			og.drain(c.N, 30*time.Millisecond)
			for _, cl := range calls {
				cl.cancel()
			}
			ctx.Class("inconclusive:early-callers-did-not-reach-the-handover")
			return nil
		}
		for i := 0; i < c.CancelK; i++ {
			calls[i].cancel()
		}
		og.drain(c.N, 30*time.Millisecond)
		if !allReturned(10*time.Second, all[:c.CancelK]) {
			for _, cl := range calls {
				cl.cancel()
			}
			ctx.Class("inconclusive:cancelled-callers-slow")
			return nil
		}
		for i := 0; i < c.CancelK; i++ {
			w.ended(calls[i].name) // cancelled: whether or not it reached the wire, it no longer occupies the connection
		}
		live = all[c.CancelK:]
	}
	if c.Phase == "dialing" {
		// wait until every caller that fits is queued on the dialing connection (parked in the early exchanger),
		// or - for n > limit - further dials were started
		deadline := time.Now().Add(5 * time.Second)
		for time.Now().Before(deadline) {
			early := len(quiesce.With("lazyDnsConnEarlyReservedExchanger).ExchangeReserved"))
			if early >= min(c.N, c.Limit) && (c.N <= c.Limit || env.DialsStarted() >= 2) {
				break
			}
			time.Sleep(200 * time.Microsecond)
		}
		if c.N <= c.Limit && env.DialsStarted() > 1 {
			return hx.Failf("C09/dialing-queue-refused-below-limit", "queue limit %d while dialing: a burst of %d queries made the transport start %d dials", c.Limit, c.N, env.DialsStarted())
		}
		for i := 0; i < c.CancelK; i++ {
			calls[i].cancel()
			<-calls[i].done
		}
		live = all[c.CancelK:]
		for i := 0; i < c.Refill; i++ {
			cl := &call{name: fmt.Sprintf("f%d.c09.test.", i), done: make(chan struct{})}
			cx, cancel := context.WithCancel(context.Background())
			cl.cancel = cancel
			calls = append(calls, cl)
			live = append(live, len(calls)-1)
			go burstCall(cx, eng, cl, uint16(300+i))
		}
		if c.Refill > 0 {
			// let them queue up (on the dialing connection, or on a further one)
			want := min(c.N-c.CancelK+c.Refill, c.Limit)
			deadline := time.Now().Add(2 * time.Second)
			for time.Now().Before(deadline) && len(quiesce.With("lazyDnsConnEarlyReservedExchanger).ExchangeReserved")) < want {
				time.Sleep(200 * time.Microsecond)
			}
			time.Sleep(time.Millisecond)
			if liveNow := c.N - c.CancelK + c.Refill; liveNow > c.Limit {
				// more live queries than one dialing connection may queue: the transport must have started another dial
				deadline := time.Now().Add(2 * time.Second)
				for time.Now().Before(deadline) && env.DialsStarted() < 2 {
					time.Sleep(200 * time.Microsecond)
				}
				if env.DialsStarted() < 2 {
					return hx.Failf("C09/dialing-queue-exceeded", "queue limit %d while dialing: %d queries were queued, %d cancelled, %d more issued - %d live queries wait on a single dialing connection (no further dial was started)", c.Limit, c.N, c.CancelK, c.Refill, liveNow)
				}
			} else if c.N <= c.Limit && env.DialsStarted() > 1 {
				// the slots of the cancelled queries are free again: the queries issued afterwards fit on the dialing connection
				return hx.Failf("C09/dialing-capacity-leaked", "queue limit %d while dialing: %d queries were queued, %d cancelled, %d more issued - only %d live queries, yet the transport started %d dials (the cancelled queries' slots were not released)", c.Limit, c.N, c.CancelK, c.Refill, liveNow, env.DialsStarted())
			}
		}
		openGate()
	}
	if c.Dial == "fail" {
		// every queued query must fail (none may hang); later queries dial again
		if !allReturned(10*time.Second, live) {
			return hx.Failf("C09/hang-after-dial-error", "dial failed but queued queries did not return")
		}
		nerr := 0
		for _, i := range live {
			if calls[i].err != nil {
				nerr++
			}
		}
		if c.N <= c.Limit && nerr != len(live) {
			return hx.Failf("C09/harness", "dial failed but %d of %d queued queries succeeded", len(live)-nerr, len(live))
		}
		ctx.Class("dial-fails")
		ctx.Nontrivial(fmt.Sprintf("%v", c))
		ctx.Sample(c)
		return nil
	}
	// Let every live query reach the wire (or fail), then answer them all.
	deadline := time.Now().Add(10 * time.Second)
	for time.Now().Before(deadline) {
		pendingWire := 0
		for _, i := range live {
			select {
			case <-calls[i].done:
			default:
				if !w.onWire(calls[i].name) {
					pendingWire++
				}
			}
		}
		if pendingWire == 0 {
			break
		}
		time.Sleep(200 * time.Microsecond)
	}
	if n, cn := w.maxActive(); n > c.Limit {
		return hx.Failf("C09/limit-exceeded", "limit %d: connection %d carried %d unanswered queries at once (%s)", c.Limit, cn, n, w.dump())
	}
	for _, i := range live {
		w.reply(calls[i].name)
	}
	if late != nil {
		if w.waitOnWire(late.name, 5*time.Second) {
			w.reply(late.name)
		}
		select {
		case <-late.done:
		case <-time.After(5 * time.Second):
			late.cancel()
			<-late.done
		}
	}
	if !allReturned(10*time.Second, live) {
		for _, cl := range calls {
			cl.cancel()
		}
		ctx.Class("inconclusive:burst-did-not-finish")
		return nil
	}
	nconn := len(env.Conns())
	for _, i := range live {
		if calls[i].err != nil {
			if c.N <= c.Limit || c.Refill > 0 {
				sig := "C09/refused-below-limit"
				if c.Phase == "dialing" || c.Phase == "dialing-late" || c.Phase == "handover-cancel" {
					sig = "C09/early-query-refused-after-dial"
				}
				return hx.Failf(sig, "limit %d (queue limit while dialing %d), phase %s: burst of %d queries (%d cancelled before the dial finished): query %d failed with: %v", c.Limit, c.Limit, c.Phase, c.N, c.CancelK, i, calls[i].err)
			}
		}
	}
	if c.N > c.Limit {
		need := (c.N - c.CancelK + c.Limit - 1) / c.Limit
		if c.Phase == "established" || c.CancelK == 0 {
			if nconn < need {
				return hx.Failf("C09/limit-exceeded", "limit %d: %d simultaneous queries were carried by %d connection(s)", c.Limit, c.N, nconn)
			}
		}
	}
	// capacity is back: the same burst again must need no further connection when n <= limit
	if c.N <= c.Limit && late == nil && c.Refill == 0 {
		before := env.DialsStarted()
		calls2 := make([]*call, c.N)
		for i := range calls2 {
			cl := &call{name: fmt.Sprintf("r%d.c09.test.", i), done: make(chan struct{})}
			cx, cancel := context.WithCancel(context.Background())
			cl.cancel = cancel
			calls2[i] = cl
			go burstCall(cx, eng, cl, uint16(500+i))
		}
		deadline := time.Now().Add(10 * time.Second)
		for time.Now().Before(deadline) {
			missing := 0
			for _, cl := range calls2 {
				select {
				case <-cl.done:
				default:
					if !w.onWire(cl.name) {
						missing++
					}
				}
			}
			if missing == 0 {
				break
			}
			time.Sleep(200 * time.Microsecond)
		}
		for _, cl := range calls2 {
			w.reply(cl.name)
		}
		for _, cl := range calls2 {
			select {
			case <-cl.done:
			case <-time.After(10 * time.Second):
				cl.cancel()
				<-cl.done
			}
			if cl.err != nil {
				return hx.Failf("C09/capacity-leaked", "limit %d: after a burst of %d (cancelled %d) completed, the same burst again fails: %v", c.Limit, c.N, c.CancelK, cl.err)
			}
		}
		if env.DialsStarted() != before {
			return hx.Failf("C09/capacity-leaked", "limit %d: after a burst of %d completed, repeating it needed %d new dial(s)", c.Limit, c.N, env.DialsStarted()-before)
		}
		if n, cn := w.maxActive(); n > c.Limit {
			return hx.Failf("C09/limit-exceeded", "limit %d: connection %d carried %d unanswered queries at once", c.Limit, cn, n)
		}
	}
	ctx.Classf("phase=%s", c.Phase)
	ctx.Classf("limit=%d", c.Limit)
	switch {
	case c.N > c.Limit:
		ctx.Class("burst>limit")
	case c.N > c.Limit/2:
		ctx.Class("limit/2<burst<=limit")
	default:
		ctx.Class("burst<=limit/2")
	}
	if c.N > c.Limit/2 || c.CancelK > 0 {
		ctx.Nontrivial(fmt.Sprintf("%v", c))
	}
	ctx.Sample(c)
	return nil
}

func burstCall(cx context.Context, eng tx.Engine, cl *call, id uint16) {
	cl.resp, cl.err = eng.Exchange(cx, peer.Query(id, cl.name, 16))
	close(cl.done)
}

func TestPropPipelineBurst(t *testing.T) { hx.Check(t, 1500, genBurst, runBurst) }

// ---------------------------------------------------------------- D. ReuseConnTransport: one query per connection, idle connections are reused

type ReuseCase struct {
	Bursts  []int `json:"bursts"`   // sizes of consecutive bursts
	CancelK []int `json:"cancel_k"` // per burst: cancel this many instead of answering
	Late    []int `json:"late"`     // per burst: this many of the cancelled queries are answered late, after the burst (their connections become idle again)
}

func genReuse(t *rapid.T) ReuseCase {
	var c ReuseCase
	nb := rapid.IntRange(1, 4).Draw(t, "nb")
	for i := 0; i < nb; i++ {
		n := rapid.IntRange(1, 12).Draw(t, "n")
		c.Bursts = append(c.Bursts, n)
		c.CancelK = append(c.CancelK, rapid.SampledFrom([]int{0, 0, 1, n}).Draw(t, "ck"))
		c.Late = append(c.Late, rapid.SampledFrom([]int{0, 0, 1, n}).Draw(t, "late"))
	}
	return c
}

func runReuse(c ReuseCase, ctx *hx.Ctx) *hx.Failure {
	w := newWatcher()
	env := tx.NewEnv(false)
	env.OnDial = func(cn int, fc *fakenet.Conn) error { w.install(cn, fc); return nil }
	eng, err := tx.NewEngine("reuse", env, tx.Opt{})
	if err != nil {
		return hx.Failf("C09/harness", "%v", err)
	}
	defer eng.Close()
	idle := 0 // connections known to be idle and healthy
	serial := 0
	anyCancel := false
	for b, n := range c.Bursts {
		connsBefore := env.Conns()
		calls := make([]*call, n)
		for i := range calls {
			serial++
			cl := &call{name: fmt.Sprintf("u%d.c09.test.", serial), done: make(chan struct{})}
			cx, cancel := context.WithCancel(context.Background())
			cl.cancel = cancel
			calls[i] = cl
			go burstCall(cx, eng, cl, uint16(serial))
		}
		for _, cl := range calls {
			if !w.waitOnWire(cl.name, 10*time.Second) {
				for _, x := range calls {
					x.cancel()
				}
				ctx.Class("inconclusive:query-not-written")
				return nil
			}
		}
		if m, cn := w.maxActive(); m > 1 {
			return hx.Failf("C09/limit-exceeded", "non-pipelined connection %d carried %d unanswered queries at once", cn, m)
		}
		// Reuse: as long as no query of this case was cancelled (a cancelled query leaves its connection busy and
		// may make the transport dial in the background), a burst must use the idle connections first.
		if !anyCancel {
			existing := map[int]bool{}
			for _, fc := range connsBefore {
				existing[fc.ID] = true
			}
			onNew := 0
			w.mu.Lock()
			for _, cl := range calls {
				for _, cn := range w.seenOn[cl.name] {
					if !existing[cn] {
						onNew++
					}
				}
			}
			w.mu.Unlock()
			if want := max(0, n-idle); onNew > want {
				return hx.Failf("C09/idle-connection-not-reused", "burst %d of %d queries with %d idle connections wrote %d queries on new connections (at most %d needed) %s", b, n, idle, onNew, want, w.dump())
			}
		}
		k := min(c.CancelK[b], n)
		if k > 0 {
			anyCancel = true
		}
		for i, cl := range calls {
			if i < k {
				// The caller is gone, but its query is on the wire and unanswered: the connection it was written on
				// stays occupied (the watcher keeps counting it) until the server answers it or the connection dies.
				cl.cancel()
				<-cl.done
			} else {
				w.reply(cl.name)
				select {
				case <-cl.done:
				case <-time.After(10 * time.Second):
					cl.cancel()
					<-cl.done
					ctx.Class("inconclusive:reply-not-returned")
					return nil
				}
				if cl.err != nil {
					return hx.Failf("C09/harness", "answered query failed: %v", cl.err)
				}
			}
		}
		late := 0
		if b < len(c.Late) {
			late = min(c.Late[b], k)
		}
		for i := 0; i < late; i++ {
			w.reply(calls[i].name) // the late reply: nobody waits for it, the connection becomes idle again
		}
		// connections whose query was answered are idle again; cancelled ones stay busy until a reply or timeout
		for _, fc := range env.Conns() {
			fc.WaitReaderIdle(time.Second)
		}
		idle = max(idle, n) - k
		if idle < 0 {
			idle = 0
		}
	}
	ctx.Classf("bursts=%d", len(c.Bursts))
	if len(c.Bursts) >= 2 {
		ctx.Nontrivial(fmt.Sprintf("%v", c))
	}
	ctx.Sample(c)
	return nil
}

func TestPropReuseOnePerConn(t *testing.T) { hx.Check(t, 1500, genReuse, runReuse) }

func TestReplay(t *testing.T) {
	switch hx.ReplayTarget() {
	case "TestPropConnAccounting":
		hx.Replay(t, "TestPropConnAccounting", 3, runConnCase)
	case "TestPropPipelineBurst":
		hx.Replay(t, "TestPropPipelineBurst", 10, runBurst)
	case "TestPropReuseOnePerConn":
		hx.Replay(t, "TestPropReuseOnePerConn", 5, runReuse)
	default:
		t.Skip("no replay")
	}
}
