// C18 — upstreams connect to exactly the address the user configured.
package c18

import (
	"context"
	"crypto/tls"
	"encoding/binary"
	"fmt"
	"io"
	"net"
	"strconv"
	"strings"
	"sync"
	"testing"
	"time"

	"github.com/IrineSistiana/mosdns/v5/pkg/upstream"
	"github.com/IrineSistiana/mosdns/v5/pkg/utils"
	"github.com/miekg/dns"
	"github.com/quic-go/quic-go"
	"pgregory.net/rapid"

	"verif/harness/hx"
	"verif/harness/peer"
)

func TestMain(m *testing.M) { hx.Main(m) }

// ---------------------------------------------------------------- observers

type connect struct {
	host   string
	port   int
	sni    string
	hasSNI bool
}

// socks5 recorder: sees the literal destination of every CONNECT, reachable or not.
type socksSrv struct {
	l    net.Listener
	mu   sync.Mutex
	seen []connect
	cert tls.Certificate
	ch   chan struct{}
}

var (
	certOnce sync.Once
	theCert  tls.Certificate
	certErr  error
)

// one recorder per case: connections of an earlier case can never be mistaken for this one's
func newSocks() (*socksSrv, error) {
	certOnce.Do(func() { theCert, certErr = utils.GenerateCertificate("c18.test") })
	if certErr != nil {
		return nil, certErr
	}
	l, err := net.Listen("tcp", "127.0.0.1:0")
	if err != nil {
		return nil, err
	}
	s := &socksSrv{l: l, cert: theCert, ch: make(chan struct{}, 1024)}
	go s.serve()
	return s, nil
}

func (s *socksSrv) serve() {
	for {
		c, err := s.l.Accept()
		if err != nil {
			return
		}
		go s.handle(c)
	}
}

func (s *socksSrv) handle(c net.Conn) {
	defer c.Close()
	c.SetDeadline(time.Now().Add(5 * time.Second))
	hdr := make([]byte, 2)
	if _, err := io.ReadFull(c, hdr); err != nil || hdr[0] != 5 {
		return
	}
	if _, err := io.ReadFull(c, make([]byte, hdr[1])); err != nil {
		return
	}
	c.Write([]byte{5, 0})
	req := make([]byte, 4)
	if _, err := io.ReadFull(c, req); err != nil || req[1] != 1 {
		return
	}
	var host string
	switch req[3] {
	case 1:
		b := make([]byte, 4)
		io.ReadFull(c, b)
		host = net.IP(b).String()
	case 4:
		b := make([]byte, 16)
		io.ReadFull(c, b)
		host = net.IP(b).String()
	case 3:
		l := make([]byte, 1)
		io.ReadFull(c, l)
		b := make([]byte, l[0])
		io.ReadFull(c, b)
		host = string(b)
	default:
		return
	}
	pb := make([]byte, 2)
	if _, err := io.ReadFull(c, pb); err != nil {
		return
	}
	rec := connect{host: host, port: int(binary.BigEndian.Uint16(pb))}
	c.Write([]byte{5, 0, 0, 1, 0, 0, 0, 0, 0, 0})
	// peek: is a TLS ClientHello coming? (tls / https upstreams)
	first := make([]byte, 1)
	c.SetReadDeadline(time.Now().Add(400 * time.Millisecond))
	n, _ := c.Read(first)
	if n == 1 && first[0] == 0x16 {
		pc := &prefixConn{Conn: c, pre: first}
		c.SetDeadline(time.Now().Add(3 * time.Second))
		tc := tls.Server(pc, &tls.Config{GetConfigForClient: func(h *tls.ClientHelloInfo) (*tls.Config, error) {
			rec.sni, rec.hasSNI = h.ServerName, true
			return &tls.Config{Certificates: []tls.Certificate{s.cert}, NextProtos: []string{"h2", "http/1.1"}}, nil
		}})
		tc.Handshake()
	}
	s.mu.Lock()
	s.seen = append(s.seen, rec)
	s.mu.Unlock()
	s.ch <- struct{}{}
}

type prefixConn struct {
	net.Conn
	pre []byte
}

func (p *prefixConn) Read(b []byte) (int, error) {
	if len(p.pre) > 0 {
		n := copy(b, p.pre)
		p.pre = p.pre[n:]
		return n, nil
	}
	return p.Conn.Read(b)
}

// udp sink bound for one case
type sink struct {
	host string
	port int
	c    *net.UDPConn
	got  chan struct{}
	tcp  net.Listener   // truncate mode: the TCP side of the same host:port
	tcpc chan struct{}  // a TCP connection arrived there
	ql   *quic.Listener // quic mode: a QUIC listener instead of a raw socket; the ClientHello's server name is recorded
	sni  chan string
}

// bindQuicSink listens for QUIC on host:port; every ClientHello that arrives is reported with its server name.
func bindQuicSink(host string, port int) (*sink, error) {
	certOnce.Do(func() { theCert, certErr = utils.GenerateCertificate("c18.test") })
	if certErr != nil {
		return nil, certErr
	}
	s := &sink{host: host, got: make(chan struct{}, 1), sni: make(chan string, 8)}
	conf := &tls.Config{GetConfigForClient: func(h *tls.ClientHelloInfo) (*tls.Config, error) {
		select {
		case s.sni <- h.ServerName:
		default:
		}
		select {
		case s.got <- struct{}{}:
		default:
		}
		return &tls.Config{Certificates: []tls.Certificate{theCert}, NextProtos: []string{"doq", "h3"}}, nil
	}}
	ln, err := quic.ListenAddr(net.JoinHostPort(host, strconv.Itoa(port)), conf, nil)
	if err != nil {
		return nil, err
	}
	s.ql = ln
	s.port = ln.Addr().(*net.UDPAddr).Port
	go func() {
		for {
			if _, err := ln.Accept(context.Background()); err != nil {
				return
			}
		}
	}()
	return s, nil
}

// bindSink binds the UDP socket of one case. With truncate set every DNS query is answered with a TC reply and a TCP
// listener is bound on the same host:port, where the retry over TCP has to arrive.
func bindSink(host string, port int, truncate bool) (*sink, error) {
	c, err := net.ListenUDP("udp", &net.UDPAddr{IP: net.ParseIP(host), Port: port})
	if err != nil {
		return nil, err
	}
	s := &sink{host: host, port: c.LocalAddr().(*net.UDPAddr).Port, c: c, got: make(chan struct{}, 1), tcpc: make(chan struct{}, 4)}
	if truncate {
		l, err := net.Listen("tcp", net.JoinHostPort(host, strconv.Itoa(s.port)))
		if err != nil {
			c.Close()
			return nil, err
		}
		s.tcp = l
		go func() {
			for {
				cn, err := l.Accept()
				if err != nil {
					return
				}
				select {
				case s.tcpc <- struct{}{}:
				default:
				}
				cn.Close()
			}
		}()
	}
	go func() {
		buf := make([]byte, 65535)
		for {
			n, from, err := c.ReadFromUDP(buf)
			if err != nil {
				return
			}
			select {
			case s.got <- struct{}{}:
			default:
			}
			if truncate {
				q := new(dns.Msg)
				if q.Unpack(buf[:n]) == nil && !q.Response {
					r := new(dns.Msg)
					r.SetReply(q)
					r.Truncated = true
					if w, err := r.Pack(); err == nil {
						c.WriteToUDP(w, from)
					}
				}
			}
		}
	}()
	return s, nil
}

func (s *sink) Close() {
	if s.ql != nil {
		s.ql.Close()
		return
	}
	s.c.Close()
	if s.tcp != nil {
		s.tcp.Close()
	}
}

var setupErr error

// bootstrap server: answers every A query with the address registered for the name
var (
	bootOnce sync.Once
	bootConn *net.UDPConn
	bootMu   sync.Mutex
	bootMap  = map[string]net.IP{}
)

func bootAddr() string {
	bootOnce.Do(func() {
		c, err := net.ListenUDP("udp", &net.UDPAddr{IP: net.IPv4(127, 0, 0, 1)})
		if err != nil {
			return
		}
		bootConn = c
		go func() {
			buf := make([]byte, 4096)
			for {
				n, addr, err := c.ReadFromUDP(buf)
				if err != nil {
					return
				}
				q := new(dns.Msg)
				if q.Unpack(buf[:n]) != nil || len(q.Question) != 1 {
					continue
				}
				r := new(dns.Msg)
				r.SetReply(q)
				bootMu.Lock()
				ip := bootMap[strings.ToLower(q.Question[0].Name)]
				bootMu.Unlock()
				if ip != nil && q.Question[0].Qtype == dns.TypeA {
					r.Answer = []dns.RR{&dns.A{Hdr: dns.RR_Header{Name: q.Question[0].Name, Rrtype: dns.TypeA, Class: dns.ClassINET, Ttl: 60}, A: ip.To4()}}
				}
				w, _ := r.Pack()
				c.WriteToUDP(w, addr)
			}
		}()
	})
	if bootConn == nil {
		return ""
	}
	return bootConn.LocalAddr().String()
}

// ---------------------------------------------------------------- generator

type Case struct {
	Scheme          string `json:"scheme"`    // "", udp, tcp, tcp+pipeline, tls, tls+pipeline, https, h3, quic
	Host            string `json:"host"`      // as written in the URL (IPv6 in brackets or bare)
	HostKind        string `json:"host_kind"` // v4 | v6br | v6bare | name
	Port            int    `json:"port"`      // 0 = not written
	DialAddr        string `json:"dial_addr"`
	DialHost        string `json:"dial_host"` // expected host from dial_addr ("" = none)
	DialPort        int    `json:"dial_port"`
	Path            string `json:"path"`
	Sink            int    `json:"sink"` // udp-based: index into loopHosts of the address the sink is bound on (-1 otherwise)
	SinkDefaultPort bool   `json:"sink_default_port"`
	ViaDial         bool   `json:"via_dial"`     // the URL names something else, dial_addr points at the sink
	OmitPort        bool   `json:"omit_port"`    // leave the port out where the scheme default applies
	Bootstrap       bool   `json:"bootstrap"`    // hostname resolved through a (harness) bootstrap server; destination = a TCP listener bound for the case
	Truncate        bool   `json:"truncate"`     // plain udp: the sink answers TC, the retry over TCP must reach the same host:port
	BootstrapIP     bool   `json:"bootstrap_ip"` // like bootstrap, but the URL host is the listener's IP literal: a configured bootstrap server must not be asked
	QuicSNI         bool   `json:"quic_sni"`     // quic/h3 via dial_addr with a host name in the URL: the destination is a QUIC listener that records the ClientHello's server name
	Prior           bool   `json:"prior"`        // TLS-based: another upstream (different host name) was created before from the same caller-supplied tls.Config
}

var loopHosts = []string{"127.0.0.1", "127.0.0.2", "127.1.2.15", "::1"}

var v6forms = []string{"2001:db8::15", "2001:db8::1", "2001:0db8:0000:0000:0000:0000:0000:0015", "fe80::1", "::ffff:1.2.3.4", "2001:db8:1:2:3:4:5:6", "::2"}
var v4forms = []string{"192.0.2.7", "10.1.2.3", "1.1.1.1", "203.0.113.251"}
var names = []string{"dns.example", "a.b.example.org", "resolver1.test", "xn--bcher-kva.example"}

func genCase(t *rapid.T) Case {
	var c Case
	c.Sink = -1
	c.Scheme = rapid.SampledFrom([]string{"", "udp", "tcp", "tcp+pipeline", "tls", "tls+pipeline", "https", "h3", "quic"}).Draw(t, "scheme")
	udpBased := c.Scheme == "" || c.Scheme == "udp" || c.Scheme == "h3" || c.Scheme == "quic"
	if rapid.IntRange(0, 2).Draw(t, "port") != 0 {
		c.Port = rapid.SampledFrom([]int{1, 53, 443, 853, 5353, 8443, 65535, 10853}).Draw(t, "portv")
	}
	if udpBased {
		// destinations are observable only on loopback: a sink socket is bound per case at run time
		c.Sink = rapid.IntRange(0, len(loopHosts)-1).Draw(t, "sinkHost")
		c.SinkDefaultPort = rapid.IntRange(0, 2).Draw(t, "defPort") == 0
		c.ViaDial = rapid.IntRange(0, 2).Draw(t, "viaDial") == 0
		c.OmitPort = rapid.Bool().Draw(t, "omitPort")
		c.Port = 0
		if c.Scheme == "h3" {
			c.Path = "/dns-query"
		}
		if c.Scheme == "" || c.Scheme == "udp" {
			c.Truncate = rapid.Bool().Draw(t, "truncate")
		}
		if c.ViaDial && (c.Scheme == "h3" || c.Scheme == "quic") {
			c.Host, c.HostKind = names[rapid.IntRange(0, len(names)-1).Draw(t, "uname")], "name"
			c.QuicSNI = rapid.Bool().Draw(t, "quicSNI")
		}
		return c
	}
	// tcp-based: observed through the SOCKS5 recorder, any host works
	kinds := []string{"v4", "v6br", "v6br", "v6bare"}
	if c.Scheme != "tcp" && c.Scheme != "tcp+pipeline" {
		kinds = append(kinds, "name", "name")
	}
	c.HostKind = rapid.SampledFrom(kinds).Draw(t, "hk")
	switch c.HostKind {
	case "v4":
		c.Host = v4forms[rapid.IntRange(0, len(v4forms)-1).Draw(t, "v4")]
	case "v6br":
		c.Host = "[" + v6forms[rapid.IntRange(0, len(v6forms)-1).Draw(t, "v6")] + "]"
	case "v6bare":
		c.Host = v6forms[rapid.IntRange(0, len(v6forms)-1).Draw(t, "v6b")]
		c.Port = 0 // a bare IPv6 address followed by ":port" is ambiguous; only the port-less form is generated
	case "name":
		c.Host = names[rapid.IntRange(0, len(names)-1).Draw(t, "name")]
	}
	dialKind := rapid.IntRange(0, 6).Draw(t, "dial")
	if c.HostKind == "name" && rapid.Bool().Draw(t, "noDialForName") {
		dialKind = 6 // no dial_addr: the name is resolved (bootstrap) or handed to the proxy
	}
	switch dialKind {
	case 0:
		c.DialHost = v4forms[rapid.IntRange(0, len(v4forms)-1).Draw(t, "d4")]
		c.DialAddr = c.DialHost
	case 1:
		c.DialHost = v4forms[rapid.IntRange(0, len(v4forms)-1).Draw(t, "d4p")]
		c.DialPort = rapid.SampledFrom([]int{53, 853, 8853, 65535}).Draw(t, "dp")
		c.DialAddr = net.JoinHostPort(c.DialHost, strconv.Itoa(c.DialPort))
	case 2:
		c.DialHost = v6forms[rapid.IntRange(0, len(v6forms)-1).Draw(t, "d6p")]
		c.DialPort = rapid.SampledFrom([]int{53, 853, 8853, 65535}).Draw(t, "dp6")
		c.DialAddr = net.JoinHostPort(c.DialHost, strconv.Itoa(c.DialPort))
	case 3:
		c.DialHost = v6forms[rapid.IntRange(0, len(v6forms)-1).Draw(t, "d6")]
		c.DialAddr = c.DialHost // bare IPv6 without port
	}
	if rapid.IntRange(0, 11).Draw(t, "badPort") == 5 {
		// a port that does not exist: such an address cannot be honoured and must be rejected, not wrapped around
		bad := rapid.SampledFrom([]int{65536, 65589, 66389, 65979, 70000, 131125}).Draw(t, "badPortV")
		// (in the position that decides the destination: the dial_addr's port if there is a dial_addr with a port,
		// the URL's port if there is no dial_addr; a URL port next to a dial_addr is not looked at - statement silent)
		if c.DialAddr != "" && c.DialPort != 0 {
			c.DialPort = bad
			c.DialAddr = net.JoinHostPort(c.DialHost, strconv.Itoa(bad))
		} else if c.DialAddr == "" && c.HostKind != "v6bare" {
			c.Port = bad
		}
	}
	if c.Scheme == "tls" || c.Scheme == "tls+pipeline" || c.Scheme == "https" {
		c.Prior = rapid.IntRange(0, 2).Draw(t, "prior") == 0
	}
	if c.Scheme == "https" {
		c.Path = rapid.SampledFrom([]string{"/dns-query", "", "/q"}).Draw(t, "path")
	}
	if c.HostKind == "v4" && c.DialAddr == "" && c.Port <= 65535 && rapid.IntRange(0, 3).Draw(t, "bootstrapIP") == 0 {
		c.Bootstrap, c.BootstrapIP = true, true
		c.OmitPort = rapid.IntRange(0, 3).Draw(t, "bsipOmit") == 0
		c.Sink = rapid.IntRange(0, 2).Draw(t, "bsipHost")
	}
	if c.HostKind == "name" && c.DialAddr == "" && rapid.Bool().Draw(t, "bootstrap") {
		c.Bootstrap = true
		c.OmitPort = rapid.IntRange(0, 3).Draw(t, "bsOmit") == 0
		c.Sink = rapid.IntRange(0, 2).Draw(t, "bsHost") // an IPv4 loopback address the bootstrap server answers with
	}
	return c
}

func (c Case) addr() string {
	var sb strings.Builder
	if c.Scheme != "" {
		sb.WriteString(c.Scheme + "://")
	}
	sb.WriteString(c.Host)
	if c.Port != 0 {
		sb.WriteString(":" + strconv.Itoa(c.Port))
	}
	sb.WriteString(c.Path)
	return sb.String()
}

func canonHost(h string) string {
	h = strings.TrimSuffix(strings.TrimPrefix(h, "["), "]")
	if ip := net.ParseIP(h); ip != nil {
		return ip.String()
	}
	return h
}

// ---------------------------------------------------------------- property

func runCase(c Case, ctx *hx.Ctx) *hx.Failure {
	def := map[string]int{"": 53, "udp": 53, "tcp": 53, "tcp+pipeline": 53, "tls": 853, "tls+pipeline": 853, "https": 443, "h3": 443, "quic": 853}[c.Scheme]
	// expected destination, by construction
	urlHost := canonHost(c.Host)
	wantHost := urlHost
	wantPorts := map[int]bool{}
	if c.DialAddr != "" {
		wantHost = canonHost(c.DialHost)
		if c.DialPort != 0 {
			wantPorts[c.DialPort] = true
		} else {
			wantPorts[def] = true
			if c.Port != 0 {
				wantPorts[c.Port] = true // statement silent: URL port with a port-less dial_addr
			}
		}
	} else if c.Port != 0 {
		wantPorts[c.Port] = true
	} else {
		wantPorts[def] = true
	}
	udpBased := c.Sink >= 0 && !c.Bootstrap
	var sk *sink
	if udpBased {
		port := 0
		if c.SinkDefaultPort {
			port = def
		}
		var err error
		if c.QuicSNI {
			sk, err = bindQuicSink(loopHosts[c.Sink], port)
		} else {
			sk, err = bindSink(loopHosts[c.Sink], port, c.Truncate)
		}
		if err != nil {
			ctx.Class("skipped:cannot-bind-sink")
			return nil
		}
		defer sk.Close()
		hostStr := sk.host
		kind := "v4"
		if strings.Contains(hostStr, ":") {
			hostStr, kind = "["+hostStr+"]", "v6br"
		}
		omit := c.OmitPort && sk.port == def
		if c.ViaDial {
			if c.Host == "" {
				c.Host, c.HostKind = "192.0.2.99", "v4"
			}
			c.DialHost = sk.host
			if omit {
				c.DialAddr, c.DialPort = sk.host, 0
			} else {
				c.DialAddr, c.DialPort = net.JoinHostPort(sk.host, strconv.Itoa(sk.port)), sk.port
			}
		} else {
			c.Host, c.HostKind = hostStr, kind
			if omit {
				c.Port = 0
			} else {
				c.Port = sk.port
			}
		}
		urlHost = canonHost(c.Host)
		wantHost = canonHost(sk.host)
	}
	var bsListener net.Listener
	bsAccepted := make(chan struct{}, 4)
	if c.Bootstrap {
		ba := bootAddr()
		if ba == "" {
			ctx.Class("skipped:no-bootstrap-server")
			return nil
		}
		ip := loopHosts[c.Sink%3]
		port := 0
		if c.OmitPort {
			port = def
		}
		l, err := net.Listen("tcp", net.JoinHostPort(ip, strconv.Itoa(port)))
		if err != nil {
			ctx.Class("skipped:cannot-bind-listener")
			return nil
		}
		bsListener = l
		defer l.Close()
		go func() {
			for {
				cn, err := l.Accept()
				if err != nil {
					return
				}
				bsAccepted <- struct{}{}
				cn.Close()
			}
		}()
		lp := l.Addr().(*net.TCPAddr).Port
		// a unique hostname per case, resolved by the bootstrap server to the listener's address
		if c.BootstrapIP {
			// the URL names the listener's address itself; the bootstrap server knows nothing about it
			c.Host, c.HostKind = ip, "v4"
		} else {
			c.Host = fmt.Sprintf("bs%d-%d.c18.test", lp, time.Now().UnixNano()%1000000)
			bootMu.Lock()
			bootMap[strings.ToLower(c.Host)+"."] = net.ParseIP(ip)
			bootMu.Unlock()
		}
		if c.OmitPort {
			c.Port = 0
		} else {
			c.Port = lp
		}
		urlHost = c.Host
	}
	socks, err := newSocks()
	if err != nil {
		return hx.Failf("C18/harness", "socks: %v", err)
	}
	defer socks.l.Close()
	var verifiedName string
	var vmu sync.Mutex
	opt := upstream.Opt{DialAddr: c.DialAddr}
	if !udpBased && !c.Bootstrap {
		opt.Socks5 = socks.l.Addr().String()
	}
	if c.Bootstrap {
		opt.Bootstrap = bootAddr()
	}
	opt.TLSConfig = &tls.Config{InsecureSkipVerify: true, VerifyConnection: func(cs tls.ConnectionState) error {
		vmu.Lock()
		verifiedName = cs.ServerName
		vmu.Unlock()
		return nil
	}}
	if c.Prior {
		// the caller's tls.Config is shared by all upstreams it creates; an earlier upstream must not leave its name in it
		if pu, err := upstream.NewUpstream(c.Scheme+"://prior-upstream.c18.test", opt); err == nil {
			defer pu.Close()
			ctx.Class("prior-upstream-from-same-tls-config")
		}
	}
	addr := c.addr()
	u, err := upstream.NewUpstream(addr, opt)
	if c.Port > 65535 || c.DialPort > 65535 {
		if err == nil {
			u.Close()
			return hx.Failf("C18/unhonourable-address-accepted", "NewUpstream(%q, dial_addr=%q) was accepted although port %d does not exist", addr, c.DialAddr, max(c.Port, c.DialPort))
		}
		ctx.Class("port-out-of-range-rejected")
		ctx.Nontrivial(fmt.Sprintf("%v", c))
		return nil
	}
	if err != nil {
		// rejected at creation: allowed by the statement ("an address that cannot be honoured is rejected")
		ctx.Class("rejected-at-creation")
		ctx.Classf("rejected:%s/%s", c.Scheme, c.HostKind)
		// ... but a plain well-formed address must not be rejected
		wellFormed := c.HostKind == "v4" || c.HostKind == "v6br" || (c.HostKind == "name" && c.Scheme != "tcp" && c.Scheme != "tcp+pipeline")
		if wellFormed && !(udpBased && c.HostKind == "name") {
			return hx.Failf("C18/valid-address-rejected", "NewUpstream(%q, dial_addr=%q) failed: %v", addr, c.DialAddr, err)
		}
		ctx.Sample(map[string]any{"addr": addr, "dial_addr": c.DialAddr, "rejected": err.Error()})
		return nil
	}
	defer u.Close()
	cx, cancel := context.WithTimeout(context.Background(), 3*time.Second)
	done := make(chan struct{})
	go func() {
		u.ExchangeContext(cx, peer.Query(1, "q.c18.test.", 1))
		close(done)
	}()
	defer func() { cancel(); <-done }()

	if c.Bootstrap {
		select {
		case <-bsAccepted:
		case <-time.After(3 * time.Second):
			return hx.Failf("C18/wrong-destination", "NewUpstream(%q, bootstrap=%s): the name resolves to %s, but no connection reached the configured destination %s within 3 s", addr, opt.Bootstrap, loopHosts[c.Sink%3], bsListener.Addr())
		}
		ctx.Class("bootstrap")
		if c.BootstrapIP {
			ctx.Class("bootstrap-configured-for-ip-literal")
		}
	} else if udpBased {
		// a datagram must arrive at the sink bound for this case
		select {
		case <-sk.got:
		case <-time.After(2500 * time.Millisecond):
			return hx.Failf("C18/wrong-destination", "NewUpstream(%q, dial_addr=%q): no datagram reached the configured destination %s:%d within 2.5 s", addr, c.DialAddr, sk.host, sk.port)
		}
		if c.QuicSNI {
			select {
			case name := <-sk.sni:
				if name != urlHost {
					return hx.Failf("C18/wrong-server-name", "NewUpstream(%q, dial_addr=%q): the QUIC ClientHello carries server name %q, URL host is %q", addr, c.DialAddr, name, urlHost)
				}
				ctx.Class("quic-server-name-checked")
			default:
				return hx.Failf("C18/harness", "ClientHello seen but no server name recorded")
			}
		}
		if c.Truncate {
			// the reply was truncated: the same query goes out over TCP, to the same host and port
			select {
			case <-sk.tcpc:
				ctx.Class("tcp-retry-after-truncation")
			case <-time.After(2500 * time.Millisecond):
				return hx.Failf("C18/wrong-destination", "NewUpstream(%q, dial_addr=%q): the udp reply was truncated, but no TCP connection reached the configured destination %s:%d within 2.5 s", addr, c.DialAddr, sk.host, sk.port)
			}
		}
	} else {
		select {
		case <-socks.ch:
		case <-time.After(3 * time.Second):
			return hx.Failf("C18/no-connection", "NewUpstream(%q, dial_addr=%q) was accepted but no connection was opened within 3 s", addr, c.DialAddr)
		}
		socks.mu.Lock()
		rec := socks.seen[len(socks.seen)-1]
		socks.mu.Unlock()
		if canonHost(rec.host) != wantHost || !wantPorts[rec.port] {
			var ps []int
			for p := range wantPorts {
				ps = append(ps, p)
			}
			sig := "C18/wrong-destination"
			if c.HostKind == "v6br" && c.Port == 0 && c.DialAddr == "" {
				sig = "C18/bracketed-ipv6-without-port-altered"
			}
			return hx.Failf(sig, "NewUpstream(%q, dial_addr=%q): connected to host %q port %d, configured host %q port %v", addr, c.DialAddr, rec.host, rec.port, wantHost, ps)
		}
		isTLS := strings.HasPrefix(c.Scheme, "tls") || c.Scheme == "https"
		if isTLS && rec.hasSNI && c.HostKind == "name" && rec.sni != urlHost {
			return hx.Failf("C18/wrong-server-name", "NewUpstream(%q, dial_addr=%q): TLS ClientHello carries server name %q, URL host is %q", addr, c.DialAddr, rec.sni, urlHost)
		}
		if strings.HasPrefix(c.Scheme, "tls") && rec.hasSNI {
			// the name the client verifies against (also for IP hosts, which send no SNI)
			time.Sleep(2 * time.Millisecond)
			vmu.Lock()
			vn := verifiedName
			vmu.Unlock()
			if vn != "" && canonHost(vn) != urlHost {
				return hx.Failf("C18/wrong-server-name", "NewUpstream(%q, dial_addr=%q): TLS server name in use is %q, URL host is %q", addr, c.DialAddr, vn, urlHost)
			}
		}
	}
	ctx.Classf("scheme=%s", c.Scheme)
	ctx.Classf("host=%s", c.HostKind)
	if c.DialAddr != "" {
		ctx.Class("dial_addr")
	}
	if c.Port == 0 && (c.DialAddr == "" || c.DialPort == 0) {
		ctx.Class("default-port")
	}
	if strings.HasPrefix(c.HostKind, "v6") || c.DialAddr != "" || c.Port == 0 {
		ctx.Nontrivial(fmt.Sprintf("%v", c))
	}
	ctx.Sample(map[string]any{"addr": addr, "dial_addr": c.DialAddr, "expected_host": wantHost})
	return nil
}

func TestPropAddress(t *testing.T) { hx.Check(t, 9000, genCase, runCase) }

func TestReplay(t *testing.T) { hx.Replay(t, "TestPropAddress", 2, runCase) }
