// Package peer holds DNS-level helpers for scripted servers: unique queries,
// replies that carry a token derived from the wire bytes the server received,
// and the oracle that decides whether a returned reply belongs to a call.
package peer

import (
	"encoding/binary"
	"fmt"
	"strings"
	"sync"

	"github.com/miekg/dns"
)

// Query builds the wire form of a query with the caller's id and a unique question.
func Query(id uint16, qname string, qtype uint16) []byte {
	m := new(dns.Msg)
	m.Id = id
	m.RecursionDesired = true
	m.Question = []dns.Question{{Name: qname, Qtype: qtype, Qclass: dns.ClassINET}}
	b, err := m.Pack()
	if err != nil {
		panic(err)
	}
	return b
}

// Book records which tokens a scripted server issued, keyed by the question it saw.
type Book struct {
	mu     sync.Mutex
	serial int
	issued map[string]string // token -> qname of the wire query it answers
}

func NewBook() *Book { return &Book{issued: map[string]string{}} }

// Reply builds an honest reply to the wire query q received on connection conn:
// same wire ID, QR set, question echoed, one TXT record holding a fresh token.
// pad > 0 appends padding TXT data to reach roughly that size.
func (b *Book) Reply(conn int, q []byte, pad int) (reply []byte, token string, err error) {
	m := new(dns.Msg)
	if err := m.Unpack(q); err != nil {
		return nil, "", err
	}
	if len(m.Question) != 1 {
		return nil, "", fmt.Errorf("query has %d questions", len(m.Question))
	}
	b.mu.Lock()
	b.serial++
	token = fmt.Sprintf("c%d/w%d/s%d/%s", conn, m.Id, b.serial, m.Question[0].Name)
	b.issued[token] = m.Question[0].Name
	b.mu.Unlock()
	r := new(dns.Msg)
	r.SetReply(m)
	r.Answer = []dns.RR{&dns.TXT{Hdr: dns.RR_Header{Name: m.Question[0].Name, Rrtype: dns.TypeTXT, Class: dns.ClassINET, Ttl: 60}, Txt: []string{token}}}
	for pad > 0 {
		n := pad
		if n > 200 {
			n = 200
		}
		r.Extra = append(r.Extra, &dns.TXT{Hdr: dns.RR_Header{Name: "pad.", Rrtype: dns.TypeTXT, Class: dns.ClassINET, Ttl: 1}, Txt: []string{strings.Repeat("p", n)}})
		pad -= n + 20
	}
	reply, err = r.Pack()
	return reply, token, err
}

// Stray builds a reply whose wire ID is id and that answers a question nobody asked.
func (b *Book) Stray(id uint16) []byte {
	r := new(dns.Msg)
	r.Id = id
	r.Response = true
	r.Question = []dns.Question{{Name: "stray.invalid.", Qtype: dns.TypeTXT, Qclass: dns.ClassINET}}
	r.Answer = []dns.RR{&dns.TXT{Hdr: dns.RR_Header{Name: "stray.invalid.", Rrtype: dns.TypeTXT, Class: dns.ClassINET, Ttl: 60}, Txt: []string{"STRAY"}}}
	w, _ := r.Pack()
	return w
}

// WireID returns the ID field of a wire message.
func WireID(m []byte) uint16 { return binary.BigEndian.Uint16(m) }

// QName returns the question name of a wire message ("" if it does not parse).
func QName(m []byte) string {
	d := new(dns.Msg)
	if err := d.Unpack(m); err != nil || len(d.Question) != 1 {
		return ""
	}
	return d.Question[0].Name
}

// Judge decides whether resp is a reply the server produced for a query carrying
// qname, with the caller's id restored. It returns "" if so, else what is wrong.
func (b *Book) Judge(resp []byte, id uint16, qname string) string {
	if len(resp) < 12 {
		return fmt.Sprintf("reply of %d bytes", len(resp))
	}
	if got := WireID(resp); got != id {
		return fmt.Sprintf("reply carries ID %d, the caller's ID is %d", got, id)
	}
	d := new(dns.Msg)
	if err := d.Unpack(resp); err != nil {
		return "reply does not unpack: " + err.Error()
	}
	if len(d.Question) != 1 || d.Question[0].Name != qname {
		return fmt.Sprintf("reply answers question %v, the call asked %q", d.Question, qname)
	}
	if len(d.Answer) != 1 {
		return "reply has no token record"
	}
	txt, ok := d.Answer[0].(*dns.TXT)
	if !ok || len(txt.Txt) != 1 {
		return "reply has no token record"
	}
	b.mu.Lock()
	forQ, issued := b.issued[txt.Txt[0]]
	b.mu.Unlock()
	if !issued {
		return fmt.Sprintf("token %q was never issued by the server", txt.Txt[0])
	}
	if forQ != qname {
		return fmt.Sprintf("token %q was issued for %q, the call asked %q", txt.Txt[0], forQ, qname)
	}
	return ""
}

// Token returns the token carried by a reply ("" if none).
func Token(resp []byte) string {
	d := new(dns.Msg)
	if err := d.Unpack(resp); err != nil || len(d.Answer) != 1 {
		return ""
	}
	if txt, ok := d.Answer[0].(*dns.TXT); ok && len(txt.Txt) == 1 {
		return txt.Txt[0]
	}
	return ""
}
