package peer

import (
	"sync"
	"time"

	"verif/harness/fakenet"
)

// Seen is one query observed on the wire.
type Seen struct {
	Conn  int
	Wire  []byte // the query as written (wire ID = what mosdns put there)
	Seq   int    // global arrival order
	Fresh bool   // the connection had carried no earlier query
}

// Watcher re-frames what mosdns writes on fakenet connections (independently of how
// the writes were split) and records every query by question name.
type Watcher struct {
	Book *Book

	mu    sync.Mutex
	conns map[int]*fakenet.Conn
	seen  map[string][]Seen
	perC  map[int]int
	seq   int
	// Auto, when set, is called (outside the lock) for every query seen; it may answer.
	Auto func(cn int, fc *fakenet.Conn, name string, q []byte)
}

func NewWatcher() *Watcher {
	return &Watcher{Book: NewBook(), conns: map[int]*fakenet.Conn{}, seen: map[string][]Seen{}, perC: map[int]int{}}
}

func (w *Watcher) Install(cn int, fc *fakenet.Conn) {
	w.mu.Lock()
	w.conns[cn] = fc
	w.mu.Unlock()
	var pmu sync.Mutex
	processed := 0
	fc.OnWrite(func(int, []byte) error {
		pmu.Lock()
		todo := fc.FramesFrom(processed)
		processed += len(todo)
		pmu.Unlock()
		for _, q := range todo {
			name := QName(q)
			w.mu.Lock()
			w.seq++
			s := Seen{Conn: cn, Wire: q, Seq: w.seq, Fresh: w.perC[cn] == 0}
			w.perC[cn]++
			w.seen[name] = append(w.seen[name], s)
			auto := w.Auto
			w.mu.Unlock()
			if auto != nil {
				auto(cn, fc, name, q)
			}
		}
		return nil
	})
}

func (w *Watcher) Conn(cn int) *fakenet.Conn {
	w.mu.Lock()
	defer w.mu.Unlock()
	return w.conns[cn]
}

// Seen returns the sightings of a question name.
func (w *Watcher) Seen(name string) []Seen {
	w.mu.Lock()
	defer w.mu.Unlock()
	return append([]Seen(nil), w.seen[name]...)
}

// QueriesOn returns how many queries connection cn has carried.
func (w *Watcher) QueriesOn(cn int) int {
	w.mu.Lock()
	defer w.mu.Unlock()
	return w.perC[cn]
}

// Wait waits until name was seen at least n times.
func (w *Watcher) Wait(name string, n int, d time.Duration) bool {
	deadline := time.Now().Add(d)
	for {
		w.mu.Lock()
		k := len(w.seen[name])
		w.mu.Unlock()
		if k >= n {
			return true
		}
		if time.Now().After(deadline) {
			return false
		}
		time.Sleep(100 * time.Microsecond)
	}
}

// Answer feeds an honest reply to sighting s (chunked as given) and returns its token.
func (w *Watcher) Answer(s Seen, pad int, chunks []int) (string, []byte) {
	r, tok, err := w.Book.Reply(s.Conn, s.Wire, pad)
	if err != nil {
		return "", nil
	}
	fc := w.Conn(s.Conn)
	fr := fc.Frame(r)
	fc.FeedChunks(fr, chunks)
	return tok, fr
}
