// C04 — a cached answer is only served to the same question.
// (i) exhaustive axes: all 65 536 types, all 65 536 classes, the 8 AD/CD/DO sets;
// (ii) rapid pairs over the full product, biased to minimal differences.
package c04

import (
	"context"
	"crypto/sha256"
	"fmt"
	"strings"
	"testing"

	"github.com/IrineSistiana/mosdns/v5/pkg/query_context"
	"github.com/miekg/dns"
	"pgregory.net/rapid"

	"verif/harness/cachex"
	"verif/harness/dnsgen"
	"verif/harness/hx"
)

func TestMain(m *testing.M) { hx.Main(m) }

// Q is a question with the DNSSEC-relevant flags.
type Q struct {
	Name  dnsgen.Name `json:"name"`
	Type  uint16      `json:"type"`
	Class uint16      `json:"class"`
	AD    bool        `json:"ad"`
	CD    bool        `json:"cd"`
	DO    bool        `json:"do"`
	ID    uint16      `json:"id"`
	// Trailer: the query carries one more additional record behind its OPT (as a signed query does); it is no part
	// of the question
	Trailer bool `json:"trailer"`
}

func (q Q) String() string {
	return fmt.Sprintf("%s type=%d class=%d ad=%v cd=%v do=%v", q.Name.String(), q.Type, q.Class, q.AD, q.CD, q.DO)
}

// ident: identity of the question under the property (name compared case-insensitively).
func (q Q) ident() string {
	return fmt.Sprintf("%s|%d|%d|%v%v%v", q.Name.Lower(), q.Type, q.Class, q.AD, q.CD, q.DO)
}

// exact identifies the question byte for byte; it is short enough for one TXT string.
func (q Q) exact() string {
	h := sha256.Sum256(q.Name.Wire())
	return fmt.Sprintf("%x|%d|%d|%v%v%v", h[:12], q.Type, q.Class, q.AD, q.CD, q.DO)
}

func (q Q) ctx() *query_context.Context {
	m := new(dns.Msg)
	m.Id = q.ID
	m.RecursionDesired = true
	m.AuthenticatedData = q.AD
	m.CheckingDisabled = q.CD
	m.Question = []dns.Question{{Name: q.Name.String(), Qtype: q.Type, Qclass: q.Class}}
	qc := query_context.NewContext(m)
	if q.DO {
		// The cache keys on the forwarded query; DO lives in its own (fresh) OPT.
		qc.QOpt().SetDo(true)
	}
	if q.Trailer {
		qc.Q().Extra = append(qc.Q().Extra, &dns.TXT{Hdr: dns.RR_Header{Name: "key.c04.test.", Rrtype: dns.TypeTXT, Class: dns.ClassINET}, Txt: []string{"trailer"}})
	}
	return qc
}

// ask runs q through the cache. It returns whether next was reached and the token
// of the answer (the token names the question the fake upstream was asked).
type counter struct{ calls int }

func ask(p *cachex.Plugin, q Q, n *counter) (reached bool, token string, r *dns.Msg, err error) {
	qc := q.ctx()
	err = p.Exec(qc, func(_ context.Context, c *query_context.Context) error {
		if c.R() != nil {
			return nil // already answered from cache
		}
		reached = true
		n.calls++
		m := new(dns.Msg)
		m.SetReply(c.Q())
		qq := c.Q().Question[0]
		m.Answer = []dns.RR{&dns.TXT{
			Hdr: dns.RR_Header{Name: qq.Name, Rrtype: dns.TypeTXT, Class: dns.ClassINET, Ttl: 3600},
			Txt: []string{q.exact()},
		}}
		c.SetResponse(m)
		return nil
	})
	if err != nil {
		return
	}
	r = qc.R()
	if r == nil || len(r.Answer) != 1 {
		err = fmt.Errorf("no answer for %v", q)
		return
	}
	token = strings.Join(r.Answer[0].(*dns.TXT).Txt, "")
	return
}

func classify(a, b Q) string {
	var d []string
	if a.Name.Lower() != b.Name.Lower() {
		d = append(d, "name")
	}
	if a.Type != b.Type {
		if a.Type&0xff == b.Type&0xff {
			d = append(d, "type-high-byte")
		} else if a.Type>>8 == b.Type>>8 {
			d = append(d, "type-low-byte")
		} else {
			d = append(d, "type")
		}
	}
	if a.Class != b.Class {
		d = append(d, "class")
	}
	if a.AD != b.AD {
		d = append(d, "ad")
	}
	if a.CD != b.CD {
		d = append(d, "cd")
	}
	if a.DO != b.DO {
		d = append(d, "do")
	}
	if len(d) == 0 {
		return "none"
	}
	return strings.Join(d, "+")
}

func sigFor(diff string) string {
	switch {
	case diff == "type-high-byte":
		return "C04/type-high-byte-ignored"
	case diff == "class":
		return "C04/class-ignored"
	case strings.Contains(diff, "name") && !strings.Contains(diff, "+"):
		return "C04/name-confused"
	}
	return "C04/shared-entry-" + diff
}

// checkPair: store a, then b must miss; afterwards both must be served their own answer.
func checkPair(a, b Q) *hx.Failure {
	p := cachex.New(4096, 0)
	defer p.Close()
	var n counter
	reached, tok, _, err := ask(p, a, &n)
	if err != nil || !reached || tok != a.exact() {
		return hx.Failf("C04/harness", "first query did not reach next: %v reached=%v tok=%q", err, reached, tok)
	}
	diff := classify(a, b)
	reached, tok, r, err := ask(p, b, &n)
	if err != nil {
		return hx.Failf("C04/harness", "second query: %v", err)
	}
	if !reached || tok != b.exact() {
		return hx.Failf(sigFor(diff), "after storing [%v], query [%v] (differs in: %s) was answered from cache with the answer of %q (question in reply: %v)", a, b, diff, tok, r.Question)
	}
	// both must now be hits with their own answers (the check is not vacuous)
	for _, q := range []Q{a, b} {
		q.ID++
		reached, tok, r, err = ask(p, q, &n)
		if err != nil {
			return hx.Failf("C04/harness", "re-query: %v", err)
		}
		if tok != q.exact() {
			return hx.Failf(sigFor(diff), "re-query of [%v] served the answer of %q (pair differs in: %s)", q, tok, diff)
		}
		if reached {
			return hx.Failf("C04/never-hits", "re-query of [%v] was not served from cache (stored twice, pair differs in %s)", q, diff)
		}
		if r.Id != q.ID {
			return hx.Failf("C04/hit-id", "hit carries ID %d, query has %d", r.Id, q.ID)
		}
	}
	// the same must hold across a restart: dump, load into an empty instance, ask again
	d, err := p.Dump()
	if err != nil {
		return hx.Failf("C04/harness", "dump: %v", err)
	}
	p2 := cachex.New(4096, 0)
	defer p2.Close()
	if code, body := p2.Load(d); code != 200 {
		return hx.Failf("C04/reload-failed", "the instance's own dump is refused by /load_dump: %d %s", code, body)
	}
	for _, q := range []Q{a, b} {
		q.ID += 2
		reached, tok, _, err := ask(p2, q, &n)
		if err != nil {
			return hx.Failf("C04/harness", "re-query after reload: %v", err)
		}
		if !reached && tok != q.exact() {
			return hx.Failf("C04/shared-entry-after-reload", "after dump+load, [%v] is served the answer stored for %q (pair differs in: %s)", q, tok, diff)
		}
	}
	return nil
}

// ------------------------------------------------------------------ exhaustive axes

func axis(t *testing.T, name string, n int, mk func(i int) Q) {
	man := hx.NewManual(t, true, name)
	man.Case(map[string]any{"axis": name, "values": n}, func(ctx *hx.Ctx) *hx.Failure {
		p := cachex.New(1<<20, 0)
		defer p.Close()
		var cnt counter
		for i := 0; i < n; i++ {
			q := mk(i)
			reached, tok, r, err := ask(p, q, &cnt)
			if err != nil {
				return hx.Failf("C04/harness", "%v", err)
			}
			if !reached || tok != q.exact() {
				// find the colliding earlier value from the token
				other, diff := classifyTok(tok, q, mk, i)
				return hx.Failf(sigFor(diff), "axis %s: [%v] was answered from cache with the entry of [%v] (reply question %v)", name, q, other, r.Question).As("TestPropPairs", Case{A: other, B: q})
			}
		}
		for i := 0; i < n; i++ {
			q := mk(i)
			reached, tok, _, err := ask(p, q, &cnt)
			if err != nil {
				return hx.Failf("C04/harness", "%v", err)
			}
			if tok != q.exact() {
				return hx.Failf("C04/shared-entry-axis-"+name, "axis %s: second pass [%v] got the entry of %q", name, q, tok)
			}
			if reached {
				return hx.Failf("C04/never-hits", "axis %s: [%v] not served from cache on the second pass", name, q)
			}
		}
		ctx.Class("axis=" + name)
		for i := 0; i < n; i++ {
			ctx.Nontrivial(fmt.Sprintf("%s/%d", name, i))
		}
		ctx.Sample(map[string]any{"axis": name, "values": n, "first": mk(0).String(), "last": mk(n - 1).String()})
		return nil
	})
}

func classifyTok(tok string, q Q, mk func(int) Q, upto int) (Q, string) {
	for j := 0; j < upto; j++ {
		if mk(j).exact() == tok {
			return mk(j), classify(mk(j), q)
		}
	}
	return Q{}, "unknown"
}

func TestAxisTypes(t *testing.T) {
	names := []dnsgen.Name{dnsgen.NameFromStrings("example", "com")}
	if hx.Thorough() {
		names = append(names, dnsgen.NameFromStrings("a"), dnsgen.NameFromStrings("WWW", "Example", "org"), dnsgen.Name{[]byte("a.b"), []byte("c")})
	}
	for _, nm := range names {
		for fl := 0; fl < 8; fl++ {
			if !hx.Thorough() && fl != 0 && fl != 7 {
				continue
			}
			nm, fl := nm, fl
			axis(t, fmt.Sprintf("types[%s,flags=%d]", nm.String(), fl), 65536, func(i int) Q {
				return Q{Name: nm, Type: uint16(i), Class: dns.ClassINET, AD: fl&1 != 0, CD: fl&2 != 0, DO: fl&4 != 0, ID: 7}
			})
		}
	}
}

func TestAxisClasses(t *testing.T) {
	types := []uint16{dns.TypeA}
	if hx.Thorough() {
		types = append(types, dns.TypeAAAA, dns.TypeCAA, 0xffff)
	}
	for _, ty := range types {
		ty := ty
		axis(t, fmt.Sprintf("classes[type=%d]", ty), 65536, func(i int) Q {
			return Q{Name: dnsgen.NameFromStrings("example", "com"), Type: ty, Class: uint16(i), ID: 9}
		})
	}
}

func TestAxisFlags(t *testing.T) {
	axis(t, "flags", 8, func(i int) Q {
		return Q{Name: dnsgen.NameFromStrings("example", "com"), Type: dns.TypeA, Class: dns.ClassINET, AD: i&1 != 0, CD: i&2 != 0, DO: i&4 != 0, ID: 3}
	})
}

// ------------------------------------------------------------------ pairs

type Case struct {
	A Q `json:"a"`
	B Q `json:"b"`
}

func genQ(t *rapid.T, l string) Q {
	return Q{
		Name:    dnsgen.GenName(t, l+"name"),
		Type:    genU16(t, l+"type"),
		Class:   genClass(t, l+"class"),
		AD:      rapid.Bool().Draw(t, l+"ad"),
		CD:      rapid.Bool().Draw(t, l+"cd"),
		DO:      rapid.Bool().Draw(t, l+"do"),
		ID:      uint16(rapid.IntRange(0, 65534).Draw(t, l+"id")),
		Trailer: rapid.IntRange(0, 3).Draw(t, l+"trailer") == 0,
	}
}

func genU16(t *rapid.T, l string) uint16 {
	if rapid.Bool().Draw(t, l+"Common") {
		return rapid.SampledFrom([]uint16{1, 28, 5, 15, 16, 2, 6, 12, 33, 65, 255, 257, 0, 0xffff}).Draw(t, l+"C")
	}
	return uint16(rapid.IntRange(0, 65535).Draw(t, l))
}

func genClass(t *rapid.T, l string) uint16 {
	if rapid.IntRange(0, 2).Draw(t, l+"IN") != 0 {
		return dns.ClassINET
	}
	return rapid.SampledFrom([]uint16{1, 3, 4, 254, 255, 0, 257, 0x0101, 0xffff}).Draw(t, l+"C")
}

func genCase(t *rapid.T) Case {
	a := genQ(t, "a.")
	b := a
	b.ID = uint16(rapid.IntRange(0, 65534).Draw(t, "b.id"))
	n := rapid.IntRange(1, 2).Draw(t, "ndiff")
	for i := 0; i < n; i++ {
		switch rapid.IntRange(0, 8).Draw(t, "field") {
		case 0:
			b.Type ^= uint16(1) << rapid.IntRange(8, 15).Draw(t, "thi")
		case 1:
			b.Type ^= uint16(1) << rapid.IntRange(0, 7).Draw(t, "tlo")
		case 2:
			b.Class ^= uint16(1) << rapid.IntRange(0, 15).Draw(t, "cbit")
		case 3:
			b.AD = !b.AD
		case 4:
			b.CD = !b.CD
		case 5:
			b.DO = !b.DO
		case 6, 7:
			b.Name = dnsgen.Neighbour(t, b.Name, "nb")
		case 8:
			b = genQ(t, "b.")
		}
	}
	if rapid.Bool().Draw(t, "swap") {
		a, b = b, a
	}
	return Case{A: a, B: b}
}

func runCase(c Case, ctx *hx.Ctx) *hx.Failure {
	diff := classify(c.A, c.B)
	if diff == "none" {
		// same question (possibly differing in ASCII case only): either behaviour satisfies the statement
		if c.A.exact() != c.B.exact() {
			ctx.Class("excluded:case-only-difference")
			ctx.Excluded(1)
		} else {
			ctx.Class("identical-questions")
		}
		return nil
	}
	if f := checkPair(c.A, c.B); f != nil {
		return f
	}
	ctx.Class("differs:" + diff)
	if !strings.Contains(diff, "+") { // single-field difference: would collide under omission of that field
		ctx.Nontrivial(c.A.exact() + "||" + c.B.exact())
	}
	ctx.Sample(map[string]any{"a": c.A.String(), "b": c.B.String(), "differs_in": diff})
	return nil
}

func TestPropPairs(t *testing.T) { hx.Check(t, 20000, genCase, runCase) }

func TestReplay(t *testing.T) { hx.Replay(t, "TestPropPairs", 1, runCase) }

func FuzzPairs(f *testing.F) { hx.Fuzz(f, genCase, runCase) }
