// Package quiesce inspects the goroutine dump: which goroutines have a frame in a
// given package/function, and whether they are parked (blocked) or still runnable.
package quiesce

import (
	"regexp"
	"runtime"
	"strings"
	"time"
)

type G struct {
	ID    string
	State string // e.g. "select", "chan receive", "runnable", "IO wait", "sync.Cond.Wait"
	Stack string
}

var hdr = regexp.MustCompile(`^goroutine (\d+) \[([^\]]+)\]:`)

// Dump returns all goroutines.
func Dump() []G {
	buf := make([]byte, 1<<20)
	for {
		n := runtime.Stack(buf, true)
		if n < len(buf) {
			buf = buf[:n]
			break
		}
		buf = make([]byte, 2*len(buf))
	}
	var out []G
	for _, blk := range strings.Split(string(buf), "\n\n") {
		m := hdr.FindStringSubmatch(blk)
		if m == nil {
			continue
		}
		st := m[2]
		if i := strings.IndexByte(st, ','); i >= 0 {
			st = st[:i]
		}
		out = append(out, G{ID: m[1], State: st, Stack: blk})
	}
	return out
}

// With returns the goroutines whose stack contains substr.
func With(substr string) []G {
	var out []G
	for _, g := range Dump() {
		if strings.Contains(g.Stack, substr) {
			out = append(out, g)
		}
	}
	return out
}

// Parked reports whether the state is a blocked one (not runnable / running / syscall).
func (g G) Parked() bool {
	switch g.State {
	case "running", "runnable", "syscall":
		return false
	}
	return true
}

// WaitGone waits until no goroutine has substr in its stack. It returns the survivors.
func WaitGone(substr string, grace time.Duration) []G {
	deadline := time.Now().Add(grace)
	for {
		gs := With(substr)
		if len(gs) == 0 || time.Now().After(deadline) {
			return gs
		}
		time.Sleep(2 * time.Millisecond)
	}
}
