// C06 — sequences execute exactly as their rules say.
// Generated programs (rule text) are run by the real sequence plugin over
// recording harness plugins and compared with an explicit-stack reference
// interpreter over the AST (no continuation passing).
package c06

import (
	"context"
	"encoding/json"
	"errors"
	"fmt"
	"strconv"
	"strings"
	"sync"
	"sync/atomic"
	"testing"
	"time"

	"github.com/IrineSistiana/mosdns/v5/coremain"
	"github.com/IrineSistiana/mosdns/v5/pkg/query_context"
	"github.com/IrineSistiana/mosdns/v5/plugin/executable/sequence"
	"github.com/miekg/dns"
	"go.uber.org/zap"
	"pgregory.net/rapid"

	"verif/harness/hx"
)

func TestMain(m *testing.M) { hx.Main(m) }

// ------------------------------------------------------------------ AST

type M struct {
	Kind string `json:"kind"` // true | false | err | btrue | bfalse (built-in _true/_false, not recorded)
	Neg  bool   `json:"neg"`
	ID   int    `json:"id"`
	Form int    `json:"form"` // text variant
}

type A struct {
	Kind   string `json:"kind"` // ok | err | setresp | dropresp | accept | reject | return | jump | goto | wrap
	ID     int    `json:"id"`
	Target int    `json:"target,omitempty"` // sequence index for jump/goto
	Rcode  int    `json:"rcode,omitempty"`  // reject / setresp / wrap post
	Runs   int    `json:"runs,omitempty"`   // wrap: how many times the continuation is run
	Conc   bool   `json:"conc,omitempty"`   // wrap: concurrently on copies
	Post   string `json:"post,omitempty"`   // wrap: none | swallow | post
	Form   int    `json:"form"`
}

type Rule struct {
	Ms []M `json:"matches"`
	A  A   `json:"exec"`
}

type Case struct {
	Seqs [][]Rule `json:"seqs"` // seq i may reference only j < i; the last one is the entry
}

// ------------------------------------------------------------------ rule text

func (m M) text() string {
	var core string
	switch m.Kind {
	case "btrue":
		core = "_true"
	case "bfalse":
		core = "_false"
	default:
		if m.Form%2 == 0 {
			core = fmt.Sprintf("$m%d", m.ID)
		} else {
			core = fmt.Sprintf("hxm %d %s", m.ID, m.Kind)
		}
	}
	neg := ""
	if m.Neg {
		neg = []string{"!", "! ", "!  "}[(m.Form/2)%3]
	}
	pad := []string{"", " ", "  "}[(m.Form/6)%3]
	return pad + neg + core + pad
}

func (a A) text() string {
	pad := []string{"", " ", "\t"}[a.Form%3]
	sp := []string{" ", "  ", " \t "}[(a.Form/3)%3]
	var core string
	switch a.Kind {
	case "accept", "return":
		core = a.Kind
	case "reject":
		if a.Rcode == 5 && (a.Form/9)%2 == 0 {
			core = "reject" // default REFUSED
		} else {
			core = "reject" + sp + strconv.Itoa(a.Rcode)
		}
	case "jump", "goto":
		core = a.Kind + sp + fmt.Sprintf("s%d", a.Target)
	default:
		if (a.Form/9)%2 == 0 {
			core = fmt.Sprintf("$a%d", a.ID)
		} else {
			b, _ := json.Marshal(a)
			core = "hxa" + sp + strings.ReplaceAll(string(b), " ", "")
		}
	}
	return pad + core + pad
}

// ------------------------------------------------------------------ trace

type traceKey struct{}

type trace struct {
	mu sync.Mutex
	ev []any
}

// traceEvents counts all invocations of one case; a program of at most a few hundred rules that produces a million
// of them is looping (the plugins then panic, which ends the execution and is reported).
var traceEvents atomic.Int64

func (t *trace) add(v any) {
	if traceEvents.Add(1) > 1000000 {
		panic("c06: more than 1000000 plugin invocations in one case: the sequence is looping")
	}
	t.mu.Lock()
	t.ev = append(t.ev, v)
	t.mu.Unlock()
}

func (t *trace) list() []any {
	out := make([]any, 0, len(t.ev))
	for _, e := range t.ev {
		if sub, ok := e.(*trace); ok {
			out = append(out, sub.list())
		} else {
			out = append(out, e)
		}
	}
	return out
}

func tr(ctx context.Context) *trace { return ctx.Value(traceKey{}).(*trace) }

type hxErr struct{ id int }

func (e *hxErr) Error() string { return fmt.Sprintf("hx error #%d", e.id) }

// ------------------------------------------------------------------ harness plugins

type matcher struct{ m M }

func (x matcher) Match(ctx context.Context, _ *query_context.Context) (bool, error) {
	tr(ctx).add(fmt.Sprintf("M%d", x.m.ID))
	switch x.m.Kind {
	case "true":
		return true, nil
	case "false":
		return false, nil
	}
	return false, &hxErr{x.m.ID}
}

func respMsg(q *dns.Msg, rcode int) *dns.Msg {
	r := new(dns.Msg)
	r.SetReply(q)
	r.Rcode = rcode
	return r
}

type plain struct{ a A }

func (x plain) Exec(ctx context.Context, q *query_context.Context) error {
	tr(ctx).add(fmt.Sprintf("A%d", x.a.ID))
	switch x.a.Kind {
	case "ok":
	case "err":
		return &hxErr{x.a.ID}
	case "setresp":
		q.SetResponse(respMsg(q.Q(), x.a.Rcode))
	case "dropresp":
		q.SetResponse(nil)
	}
	return nil
}

type wrap struct{ a A }

func (x wrap) Exec(ctx context.Context, q *query_context.Context, next sequence.ChainWalker) error {
	t := tr(ctx)
	t.add(fmt.Sprintf("W%d", x.a.ID))
	subs := make([]*trace, x.a.Runs)
	errs := make([]error, x.a.Runs)
	for i := range subs {
		subs[i] = &trace{}
		t.add(subs[i])
	}
	if x.a.Conc {
		var wg sync.WaitGroup
		for i := 0; i < x.a.Runs; i++ {
			wg.Add(1)
			qc := q.Copy()
			go func(i int) {
				defer wg.Done()
				n := next // each run gets its own copy of the walker value, as a plugin holding `next` would
				errs[i] = n.ExecNext(context.WithValue(ctx, traceKey{}, subs[i]), qc)
				rc := -1
				if qc.R() != nil {
					rc = qc.R().Rcode
				}
				subs[i].add(fmt.Sprintf("end resp=%d", rc))
			}(i)
		}
		wg.Wait()
	} else {
		for i := 0; i < x.a.Runs; i++ {
			errs[i] = next.ExecNext(context.WithValue(ctx, traceKey{}, subs[i]), q)
			rc := -1
			if q.R() != nil {
				rc = q.R().Rcode
			}
			subs[i].add(fmt.Sprintf("end resp=%d", rc))
		}
	}
	var first error
	for _, e := range errs {
		if e != nil {
			first = e
			break
		}
	}
	switch x.a.Post {
	case "swallow":
		return nil
	case "post":
		t.add(fmt.Sprintf("P%d", x.a.ID))
		q.SetResponse(respMsg(q.Q(), x.a.Rcode))
	}
	return first
}

func pluginFor(a A) any {
	if a.Kind == "wrap" {
		return wrap{a}
	}
	return plain{a}
}

func init() {
	sequence.MustRegMatchQuickSetup("hxm", func(_ sequence.BQ, args string) (sequence.Matcher, error) {
		f := strings.Fields(args)
		if len(f) != 2 {
			return nil, fmt.Errorf("hxm: bad args %q", args)
		}
		id, err := strconv.Atoi(f[0])
		if err != nil {
			return nil, err
		}
		return matcher{M{Kind: f[1], ID: id}}, nil
	})
	sequence.MustRegExecQuickSetup("hxa", func(_ sequence.BQ, args string) (any, error) {
		var a A
		if err := json.Unmarshal([]byte(args), &a); err != nil {
			return nil, fmt.Errorf("hxa: bad args %q: %w", args, err)
		}
		return pluginFor(a), nil
	})
}

// ------------------------------------------------------------------ reference interpreter

type state struct {
	has   bool
	rcode int
}

type frame struct{ seq, pos int }

var errBudget = errors.New("budget")

type interp struct {
	seqs  [][]Rule
	steps int
	// coverage facts
	maxDepth                                  int
	usedJump, usedGoto, usedReturn, wrapNot1  bool
	negOnPath, errOnPath, gotoInJump, retJump bool
}

// run executes from the given stack (top = last). It returns the id of the error (0 = none).
func (in *interp) run(frames []frame, st *state, t *trace) (int, error) {
	for {
		if in.steps++; in.steps > 4000 {
			return 0, errBudget
		}
		if len(frames) == 0 {
			return 0, nil
		}
		if len(frames) > in.maxDepth {
			in.maxDepth = len(frames)
		}
		top := len(frames) - 1
		f := &frames[top]
		if f.pos >= len(in.seqs[f.seq]) {
			frames = frames[:top] // end of this sequence: resume after the calling jump
			continue
		}
		rule := in.seqs[f.seq][f.pos]
		f.pos++
		matched := true
		for _, m := range rule.Ms {
			var v bool
			switch m.Kind {
			case "btrue":
				v = true
			case "bfalse":
				v = false
			case "true":
				t.add(fmt.Sprintf("M%d", m.ID))
				v = true
			case "false":
				t.add(fmt.Sprintf("M%d", m.ID))
				v = false
			case "err":
				t.add(fmt.Sprintf("M%d", m.ID))
				in.errOnPath = true
				return m.ID, nil
			}
			if m.Neg {
				in.negOnPath = true
				v = !v
			}
			if !v {
				matched = false
				break
			}
		}
		if !matched {
			continue
		}
		a := rule.A
		switch a.Kind {
		case "ok":
			t.add(fmt.Sprintf("A%d", a.ID))
		case "err":
			t.add(fmt.Sprintf("A%d", a.ID))
			in.errOnPath = true
			return a.ID, nil
		case "setresp":
			t.add(fmt.Sprintf("A%d", a.ID))
			st.has, st.rcode = true, a.Rcode
		case "dropresp":
			t.add(fmt.Sprintf("A%d", a.ID))
			st.has = false
		case "accept":
			return 0, nil
		case "reject":
			st.has, st.rcode = true, a.Rcode
			return 0, nil
		case "return":
			in.usedReturn = true
			if top > 0 {
				in.retJump = true
			}
			frames = frames[:top]
		case "jump":
			in.usedJump = true
			frames = append(frames, frame{a.Target, 0})
		case "goto":
			in.usedGoto = true
			if top > 0 {
				in.gotoInJump = true
			}
			frames = []frame{{a.Target, 0}}
		case "wrap":
			if a.Runs != 1 {
				in.wrapNot1 = true
			}
			t.add(fmt.Sprintf("W%d", a.ID))
			first := 0
			subs := make([]*trace, a.Runs)
			for i := range subs {
				subs[i] = &trace{}
				t.add(subs[i])
			}
			for i := 0; i < a.Runs; i++ {
				cont := append([]frame(nil), frames...) // the same remaining rules, incl. pending jump returns
				rs := st
				if a.Conc {
					c := *st
					rs = &c
				}
				e, err := in.run(cont, rs, subs[i])
				if err != nil {
					return 0, err
				}
				rc := -1
				if rs.has {
					rc = rs.rcode
				}
				subs[i].add(fmt.Sprintf("end resp=%d", rc))
				if e != 0 && first == 0 {
					first = e
				}
			}
			switch a.Post {
			case "swallow":
				return 0, nil
			case "post":
				t.add(fmt.Sprintf("P%d", a.ID))
				st.has, st.rcode = true, a.Rcode
			}
			return first, nil
		}
	}
}

// ------------------------------------------------------------------ generator

func genCase(t *rapid.T) Case {
	var c Case
	nseq := rapid.SampledFrom([]int{1, 2, 3, 3, 4, 4, 5, 6}).Draw(t, "nseq")
	id := 0
	for s := 0; s < nseq; s++ {
		nr := rapid.IntRange(0, 8).Draw(t, "nrules")
		var rules []Rule
		for r := 0; r < nr; r++ {
			var rule Rule
			nm := rapid.SampledFrom([]int{0, 0, 1, 1, 1, 2, 3}).Draw(t, "nm")
			for k := 0; k < nm; k++ {
				id++
				kind := rapid.SampledFrom([]string{"true", "true", "true", "true", "true", "true", "false", "false", "err", "btrue", "btrue", "bfalse"}).Draw(t, "mkind")
				rule.Ms = append(rule.Ms, M{Kind: kind, Neg: rapid.IntRange(0, 4).Draw(t, "neg") == 0, ID: id, Form: rapid.IntRange(0, 53).Draw(t, "mform")})
			}
			id++
			kinds := []string{"ok", "ok", "ok", "ok", "err", "setresp", "dropresp", "accept", "reject", "return", "return", "wrap", "wrap", "wrap"}
			if s > 0 {
				kinds = append(kinds, "jump", "jump", "jump", "jump", "jump", "jump", "jump", "jump", "jump", "jump", "goto", "goto", "goto")
			}
			a := A{Kind: rapid.SampledFrom(kinds).Draw(t, "akind"), ID: id, Form: rapid.IntRange(0, 17).Draw(t, "aform")}
			switch a.Kind {
			case "jump", "goto":
				a.Target = s - 1 // deep chains are the interesting ones
				if rapid.IntRange(0, 2).Draw(t, "anyTarget") == 0 {
					a.Target = rapid.IntRange(0, s-1).Draw(t, "target")
				}
			case "reject":
				a.Rcode = rapid.SampledFrom([]int{5, 0, 2, 3, 15, 16, 4095}).Draw(t, "rcode")
			case "setresp":
				a.Rcode = rapid.IntRange(0, 15).Draw(t, "rcode")
			case "wrap":
				a.Runs = rapid.SampledFrom([]int{0, 1, 1, 2, 2, 3}).Draw(t, "runs")
				a.Conc = rapid.Bool().Draw(t, "conc")
				a.Post = rapid.SampledFrom([]string{"none", "none", "swallow", "post"}).Draw(t, "post")
				a.Rcode = rapid.IntRange(0, 15).Draw(t, "prcode")
			}
			rule.A = a
			rules = append(rules, rule)
		}
		c.Seqs = append(c.Seqs, rules)
	}
	// keep programs whose full execution is bounded (doubling wraps/jumps can explode)
	in := &interp{seqs: c.Seqs}
	if _, err := in.run([]frame{{len(c.Seqs) - 1, 0}}, &state{}, &trace{}); err != nil {
		t.Skip("program exceeds the step budget")
	}
	return c
}

// ------------------------------------------------------------------ property

func runCase(c Case, ctx *hx.Ctx) *hx.Failure {
	// reference
	in := &interp{seqs: c.Seqs}
	wantT := &trace{}
	wantSt := &state{}
	wantErr, berr := in.run([]frame{{len(c.Seqs) - 1, 0}}, wantSt, wantT)
	if berr != nil {
		ctx.Class("over-budget")
		return nil
	}

	// real
	ps := map[string]any{}
	m := coremain.NewTestMosdnsWithPlugins(ps)
	for _, rules := range c.Seqs {
		for _, r := range rules {
			for _, mm := range r.Ms {
				if mm.Kind != "btrue" && mm.Kind != "bfalse" {
					ps[fmt.Sprintf("m%d", mm.ID)] = matcher{mm}
				}
			}
			switch r.A.Kind {
			case "ok", "err", "setresp", "dropresp", "wrap":
				ps[fmt.Sprintf("a%d", r.A.ID)] = pluginFor(r.A)
			}
		}
	}
	var texts [][]map[string]any
	var entry *sequence.Sequence
	for i, rules := range c.Seqs {
		var ra []sequence.RuleArgs
		var tx []map[string]any
		for _, r := range rules {
			var a sequence.RuleArgs
			for _, mm := range r.Ms {
				a.Matches = append(a.Matches, mm.text())
			}
			a.Exec = r.A.text()
			ra = append(ra, a)
			tx = append(tx, map[string]any{"matches": a.Matches, "exec": a.Exec})
		}
		texts = append(texts, tx)
		s, err := sequence.NewSequence(sequence.NewBQ(m, zap.NewNop()), ra)
		if err != nil {
			return hx.Failf("C06/valid-program-rejected", "sequence s%d failed to load: %v\nprogram: %s", i, err, mustJSON(texts))
		}
		ps[fmt.Sprintf("s%d", i)] = s
		entry = s
	}
	q := new(dns.Msg)
	q.SetQuestion("c06.test.", dns.TypeA)
	qCtx := query_context.NewContext(q)
	gotT := &trace{}
	traceEvents.Store(0)
	var err error
	if done, hang, detail := hx.CallBounded(60*time.Second, func() {
		err = entry.Exec(context.WithValue(context.Background(), traceKey{}, gotT), qCtx)
	}); !done {
		if hang {
			return hx.Failf("C06/never-returns", "executing the program has not finished after 60 s; stuck:\n%s\nprogram: %s", detail, mustJSON(texts))
		}
		ctx.Class("inconclusive:exec-slow")
		return nil
	}

	wantJ, gotJ := mustJSON(wantT.list()), mustJSON(gotT.list())
	if wantJ != gotJ {
		return hx.Failf("C06/trace-differs", "invocation trace differs from the reference interpreter\nprogram: %s\nwant: %s\ngot:  %s", mustJSON(texts), wantJ, gotJ)
	}
	gotErr := 0
	if err != nil {
		var he *hxErr
		if !errors.As(err, &he) {
			return hx.Failf("C06/foreign-error", "Exec returned an error no plugin produced: %v\nprogram: %s", err, mustJSON(texts))
		}
		gotErr = he.id
	}
	if gotErr != wantErr {
		return hx.Failf("C06/error-differs", "Exec returned error #%d, reference says #%d (0 = none)\nprogram: %s\ntrace: %s", gotErr, wantErr, mustJSON(texts), gotJ)
	}
	gotHas, gotRc := qCtx.R() != nil, 0
	if gotHas {
		gotRc = qCtx.R().Rcode
	}
	if gotHas != wantSt.has || (gotHas && gotRc != wantSt.rcode) {
		return hx.Failf("C06/response-differs", "response present=%v rcode=%d, reference says present=%v rcode=%d\nprogram: %s\ntrace: %s", gotHas, gotRc, wantSt.has, wantSt.rcode, mustJSON(texts), gotJ)
	}

	// evidence
	if in.usedJump {
		ctx.Class("jump")
	}
	if in.usedGoto {
		ctx.Class("goto")
	}
	if in.usedReturn {
		ctx.Class("return")
	}
	if in.retJump {
		ctx.Class("return-inside-jump")
	}
	if in.gotoInJump {
		ctx.Class("goto-inside-jump")
	}
	if in.wrapNot1 {
		ctx.Class("wrap-runs!=1")
	}
	if in.negOnPath {
		ctx.Class("negation-on-path")
	}
	if in.errOnPath {
		ctx.Class("error-on-path")
	}
	ctx.Classf("depth=%d", in.maxDepth)
	if (in.usedJump || in.usedGoto) && (in.maxDepth >= 3 || in.wrapNot1 || in.negOnPath || in.errOnPath) {
		ctx.Nontrivial(mustJSON(texts))
	}
	ctx.Sample(map[string]any{"program": texts, "trace": json.RawMessage(gotJ), "error": gotErr})
	return nil
}

func mustJSON(v any) string {
	b, err := json.Marshal(v)
	if err != nil {
		return fmt.Sprintf("<%v>", err)
	}
	return string(b)
}

func TestPropSequence(t *testing.T) { hx.Check(t, 60000, genCase, runCase) }

func TestReplay(t *testing.T) { hx.Replay(t, "TestPropSequence", 3, runCase) }

func FuzzSequence(f *testing.F) { hx.Fuzz(f, genCase, runCase) }
