#!/bin/bash
# usage: tools_seedverify.sh <dir-with-patch.diff,demo_test.go,meta.json>
# Confirms in a scratch worktree: patch applies+builds, suite passes with patch, demo fails with patch, demo passes without.
set -u
export GOFLAGS=-mod=mod GOPROXY=off GOSUMDB=off GOTOOLCHAIN=local
src=$1
wt=/tmp/seedverify-$$
git -C /repo worktree add --detach $wt HEAD >/dev/null 2>&1 || exit 3
trap "git -C /repo worktree remove --force $wt >/dev/null 2>&1" EXIT
place=$(head -1 $src/demo_test.go | sed -n 's#.*PLACE IN: *\([^ ]*\).*#\1#p')
[ -z "$place" ] && { echo "no PLACE IN"; exit 3; }
cp $src/demo_test.go $wt/$place/zz_seed_demo_test.go
pkg=./${place%/}
cd $wt
echo "== demo without patch"
go test -vet=off -count=1 -run 'Seed|seed|Demo' $pkg > /tmp/sv.$$.1 2>&1; r1=$?
tail -3 /tmp/sv.$$.1
git apply $src/patch.diff || { echo "PATCH DOES NOT APPLY"; exit 3; }
go build ./... || { echo "DOES NOT BUILD"; exit 3; }
echo "== demo with patch"
go test -vet=off -count=1 -run 'Seed|seed|Demo' $pkg > /tmp/sv.$$.2 2>&1; r2=$?
tail -5 /tmp/sv.$$.2
rm $wt/$place/zz_seed_demo_test.go
echo "== suite with patch"
go test -vet=off -count=1 ./... > /tmp/sv.$$.3 2>&1; r3=$?
grep -v '^ok\|no test files' /tmp/sv.$$.3 | head -20
if [ $r3 -ne 0 ]; then echo "retry suite once (flaky Test_fastUpstream)"; go test -vet=off -count=1 ./... > /tmp/sv.$$.3 2>&1; r3=$?; grep -v '^ok\|no test files' /tmp/sv.$$.3 | head; fi
echo "RESULT demo_without=$r1 (want 0) demo_with=$r2 (want !=0) suite_with=$r3 (want 0)"
rm -f /tmp/sv.$$.*
